#!/bin/sh
# Runs every registered check (tier from $1, default quick); prints one line per check.
cd "$(dirname "$0")/.."
TIER="${1:-quick}"
for id in $(python3 -c "import json;print(' '.join(c['property_id'] for c in json.load(open('MANIFEST.json'))['checks']))"); do
  s=$(date +%s)
  ./check "$id" --tier "$TIER" > "/tmp/verif_$id.log" 2>&1
  rc=$?
  e=$(date +%s)
  echo "$id exit=$rc $((e-s))s $(grep -c '^VIOLATION' /tmp/verif_$id.log) violations, $(grep -c '^KNOWN-FINDING' /tmp/verif_$id.log) known, $(grep -c '^INCONCLUSIVE' /tmp/verif_$id.log) inconclusive"
done
