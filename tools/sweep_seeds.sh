#!/bin/sh
# tools/sweep_seeds.sh [PAR] [JOBS]  - runs every kept seeded change against the quick check(s) of the property(ies) it
# targets (scratch worktrees, /repo untouched), PAR changes at a time with JOBS workers each; prints one line per
# (seed, check) and records the result in the seed's meta.json (tools/record_detection.py).
cd "$(dirname "$0")/.."
PAR="${1:-3}"; export JOBS="${2:-5}"
python3 - <<'P' > /tmp/sweep_list.txt
import json, glob
for f in sorted(glob.glob('seeded/S*/meta.json'), key=lambda x: int(x.split('/S')[1].split('/')[0])):
    m = json.load(open(f))
    if m.get('superseded'):
        continue
    print(m['id'], ' '.join(m['breaks_properties']))
P
xargs -P "$PAR" -L 1 sh -c 'tools/try_mutant_wt.sh seeded/$0 "$@"' < /tmp/sweep_list.txt
