#!/bin/sh
# tools/adopt_seed.sh <worktree> <A|B> <Sxx> <property> "<what>" "<needs to manifest>" [round]
# Confirms the sub-agent's change in its scratch worktree (tools/confirm_mutant.sh) and, only if confirmed, stores it as
# /verif/seeded/<Sxx>/ (patch.diff, demo.py, notes.md, meta.json).
set -u
WT="$1"; L="$2"; SID="$3"; PROP="$4"; WHAT="$5"; NEEDS="$6"; ROUND="${7:-4}"
HERE="$(cd "$(dirname "$0")/.." && pwd)"
out=$("$HERE/tools/confirm_mutant.sh" "$WT" "$L")
echo "$SID ($PROP$L): $out"
case "$out" in *"demo clean exit=0 ; tests with change: 80 passed"*"demo with change exit=1"*) ;; *) echo "NOT CONFIRMED"; exit 1;; esac
D="$HERE/seeded/$SID"; mkdir -p "$D"
cp "$WT/mutant$L.diff" "$D/patch.diff"; cp "$WT/demo$L.py" "$D/demo.py"; cp "$WT/notes.md" "$D/notes.md" 2>/dev/null
SID="$SID" PROP="$PROP" WHAT="$WHAT" NEEDS="$NEEDS" ROUND="$ROUND" python3 - <<'P'
import json, os
e = os.environ
json.dump({
 "id": e['SID'], "breaks_properties": [e['PROP']], "what": e['WHAT'], "needs_to_manifest": e['NEEDS'],
 "source": f"independent sub-agent (round {e['ROUND']}: told which changes had already been tried) given only the property text and a scratch worktree",
 "confirmed": "tools/confirm_mutant.sh in the scratch worktree: demo exits 0 without the change; with it the 80 tests pass and the demo exits non-zero",
 "detected_by": {},
 "what_i_ran": "tools/confirm_mutant.sh <worktree> <A|B> (clean demo exit 0; with change: 80 tests pass, demo exit 1); tools/try_mutant_wt.sh seeded/%s <IDs> (quick tier, scratch worktree through VERIF_REPO)" % e['SID'],
}, open(f"/verif/seeded/{e['SID']}/meta.json", 'w'), indent=1)
P
