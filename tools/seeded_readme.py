#!/usr/bin/env python3
"""Regenerates seeded/README.md from seeded/*/meta.json."""
import glob, json, os
V = os.path.dirname(os.path.dirname(os.path.abspath(__file__)))
rows = []
for f in sorted(glob.glob(f'{V}/seeded/*/meta.json')):
    rows.append(json.load(open(f)))
out = ["# Seeded changes and the checks that catch them", "",
       "Each directory holds `patch.diff` (applies to /repo with `git -C /repo apply`), `demo.py` (exits 0 on the unchanged",
       "library, non-zero with the change), the author's `notes.md` and `meta.json`. None of these changes is ever committed",
       "to /repo. `tools/try_mutant_wt.sh seeded/<Sxx> <ID>...` applies a patch in a scratch worktree of /repo's HEAD and runs the quick checks against it (`VERIF_REPO`); `tools/sweep_seeds.sh` does so for every kept change.", "",
       "| id | breaks | change | needs to manifest | quick checks that report a VIOLATION | notes |", "|---|---|---|---|---|---|"]
for r in rows:
    det = r.get('detected_by', {})
    caught = ', '.join(f"{k} ({v})" for k, v in det.items() if not str(v).startswith('miss')) or '—'
    missed = ', '.join(f"{k}: {v}" for k, v in det.items() if str(v).startswith('miss'))
    out.append(f"| {r['id']} | {', '.join(r['breaks_properties'])} | {r['what']} | {r['needs_to_manifest']} | {caught} | "
               f"{r.get('history', '')}{(' Not caught by: ' + missed) if missed else ''} |")
out += ["", open(f'{V}/seeded/HISTORY.md').read() if os.path.exists(f'{V}/seeded/HISTORY.md') else ""]
open(f'{V}/seeded/README.md', 'w').write('\n'.join(out) + '\n')
print('wrote seeded/README.md with', len(rows), 'entries')
