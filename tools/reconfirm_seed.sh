#!/bin/sh
# tools/reconfirm_seed.sh <seed dir>  - re-confirms a kept seeded change on /repo's current HEAD in a scratch worktree:
# demo exits 0 without the change; with it the 80 tests pass and the demo exits non-zero.  Removes the worktree.
set -u
S="$(cd "$1" && pwd)"; TAG="$(basename "$S")"
WT="$(mktemp -d /tmp/reconf_${TAG}_XXXXXX)"; rmdir "$WT"
git -C /repo worktree add -q --detach "$WT" HEAD || exit 3
trap 'git -C /repo worktree remove --force "$WT" 2>/dev/null; rm -rf "$WT"' EXIT INT TERM
cd "$WT"
run() { PYPLATE_CONFIG="$WT/pyplate" PYTHONPATH="$WT" /venv/bin/python -B "$@"; }
run "$S/demo.py" > /tmp/reconf_${TAG}_clean.log 2>&1; d0=$?
git apply "$S/patch.diff" || { echo "$TAG: patch does not apply"; exit 3; }
t=$(PYPLATE_CONFIG="$WT/pyplate" /venv/bin/python -B -m pytest -q -p no:cacheprovider 2>&1 | tail -1)
run "$S/demo.py" > /tmp/reconf_${TAG}_mut.log 2>&1; d1=$?
echo "$TAG: demo clean exit=$d0 ; tests with change: $t ; demo with change exit=$d1 ($(tail -1 /tmp/reconf_${TAG}_mut.log | cut -c1-140))"
