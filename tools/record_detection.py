#!/usr/bin/env python3
"""tools/record_detection.py [--note TEXT] <log> ...   - reads logs written by try_mutant_wt.sh (/tmp/mutlogs/<Sxx>_<ID>.log)
and records in seeded/<Sxx>/meta.json which obligations of which cells reported a VIOLATION ("detected_by"), or that the
check passed ("miss ...").  Later results overwrite earlier ones for the same check; a first miss is kept in "history"."""
import json, os, re, sys
V = os.path.dirname(os.path.dirname(os.path.abspath(__file__)))
args = sys.argv[1:]
note = ''
if args and args[0] == '--note':
    note = ' [' + args[1] + ']'
    args = args[2:]
for log in args:
    m = re.match(r'(S\d+)_(C\d+)\.log$', os.path.basename(log))
    if not m:
        continue
    sid, cid = m.groups()
    text = open(log, errors='replace').read()
    hits = re.findall(r'^VIOLATION .*\n\s+cell=(\S+) obligation=(.+?) found_by=(\S+)', text, re.M)
    hits += [(call, cond.split(':')[-1], 'crosshair') for cond, call in
             re.findall(r'^VIOLATION .*\n\s+condition=(\S+) counterexample: (.*)$', text, re.M)]
    summary = re.findall(r'^%s tier=.*$' % cid, text, re.M)
    mf = f'{V}/seeded/{sid}/meta.json'
    meta = json.load(open(mf))
    det = meta.setdefault('detected_by', {})
    if hits:
        labels = []
        for cell, ob, by in hits:
            lab = re.sub(r'\[.*', '', ob)
            if lab not in labels:
                labels.append(lab)
        cells = []
        for cell, ob, by in hits:
            if cell not in cells:
                cells.append(cell)
        by_native = all(by == 'native-companion' for _, _, by in hits)
        new = f"{', '.join(labels[:3])} ({', '.join(cells[:2])}{' ...' if len(cells) > 2 else ''})" \
              + (' (native companion)' if by_native else '') + note
        old = det.get(cid)
        if old and str(old).startswith('miss'):
            meta['history'] = (meta.get('history', '') + f" First result for {cid}: missed; caught after strengthening.").strip()
        det[cid] = new
    else:
        inc = 'INCONCLUSIVE' in text
        if cid in det and not str(det[cid]).startswith('miss'):
            print(f"{sid} {cid}: log shows no violation but meta says caught - left unchanged")
            continue
        det[cid] = ('miss (exit 2: inconclusive)' if inc else 'miss') + note
    json.dump(meta, open(mf, 'w'), indent=1)
    print(sid, cid, '->', det[cid][:120])
