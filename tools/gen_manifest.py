#!/usr/bin/env python3
"""Regenerates MANIFEST.json from the table below (single source of truth for the registered checks)."""
import json
import os

V = os.path.dirname(os.path.dirname(os.path.abspath(__file__)))

E1 = "symx"
E2 = "crosshair"

LEVEL_E1 = ("Bounded symbolic execution of the real PyPlate functions (imported from /repo's working tree on every run): "
            "amounts, quantities, concentrations and capacities are symbolic reals, every branch of the code is a "
            "solver-decided fork, and each obligation is discharged by an unsat answer of z3 for its negation on "
            "every feasible path, within the bounds recorded in evidence.coverage.bounds. A sat answer is replayed "
            "natively on the unpatched code before it is reported. Not a proof: nothing is claimed outside the bounds.")
NOTE_E1 = ("Trusted: CPython, the symx proxies/shims (vf/symx.py, vf/npshim.py), sympy polynomial arithmetic over Q, z3. "
           "Floats are modelled as exact reals (IEEE rounding of single operations is outside the claim; PyPlate's own "
           "decimal rounding is modelled per cell as lite/delta); numpy.linalg.solve is replaced by its exact contract; "
           "instruction-text helpers are stubbed outside C19. Every path witness is re-executed natively.")

CHECKS = {
    'C01': dict(engine=E1, design='§4 C01',
                technique="symbolic execution of Container.transfer/Plate.transfer over 20 geometries with z3; per-substance sums as polynomial identities",
                text="per-substance conservation over all physical objects and identity of every bystander well, for "
                     "20 source/destination geometries (two plates, one plate disjoint/overlapping, container into "
                     "itself, whole Plate on either side, lists, stepped slices) with every well amount symbolic."),
    'C03': dict(engine=E1, design='§4 C03',
                technique="symbolic execution of each operation with unconstrained requests; accept/refuse regions compared with independent feasibility predicates by z3",
                text="for construction, transfer (4 unit kinds), plate transfer, fill_to, dilute, create_solution, "
                     "create_solution_from and a baked recipe, with requests of either sign and symbolic capacities: "
                     "returned objects have amounts >= 0 and 0 <= volume <= capacity, acceptance implies the request is "
                     "feasible, refusal is a ValueError and implies the request is infeasible (so exact-capacity "
                     "requests are accepted; also checked under the delta rounding model)."),
    'C06': dict(engine=E1, design='§4 C06',
                technique="symbolic execution of Unit.convert_from over the complete unit table; polynomial identity vs an independent factor table",
                text="all 4800 (kind, from, to, prefix, prefix) conversions with symbolic amount, molecular weight, density, "
                     "specific activity and configured default densities equal q*m(pf)*F/m(pt) for an independently "
                     "written factor table; zero cells and the non-enzyme-in-U rejection; linearity, composition over "
                     "all base-unit triples, round trips; storage conversions; the enzyme factory's unit texts."),
    'C10': dict(engine=E1, design='§4 C10',
                technique="inductive step of the volume invariant through every mutator + observers vs definitions, symbolic execution with z3",
                text="from an arbitrary valid state through each of 20 mutator variants the stored volume equals the summed "
                     "content volume and respects the capacity; get_volume (10 prefixes), get_concentration (20 unit "
                     "spellings) and the plate observers equal the value computed from contents by definition, output "
                     "rounding modelled."),
    'C11': dict(engine=E1, design='§4 C11',
                technique="symbolic execution of Container.dilute/fill_to; target equation and solvent-only change decided by z3",
                text="for 7 mixture shapes x 15 concentration spellings (dilute) and 8 fill units (fill_to): only the "
                     "named solvent changes and does not decrease, the target concentration / total quantity is met "
                     "(cross-multiplied), capacity respected, refusals justified, no-op only inside the 1e-6 band."),
    'C17': dict(engine=E1, design='§4 C17',
                technique="symbolic execution of remove on containers/plates/slices and of the recipe tracking queries; z3",
                text="selected substances absent, all others identical terms, volume recomputed, wells outside the slice "
                     "identical, and for recipe steps get_substance_used / get_container_flows report exactly the "
                     "removed amounts (per well for plates)."),
    'C05': dict(engine=E1, design='§4 C05',
                technique="symbolic execution of Container.create_solution (exact solve contract); constraints re-checked on the result and feasibility vs an independent Cramer oracle, z3",
                text="for 1-2 (thorough 3) solutes, pure or container solvents, every pair of (concentration, quantity, "
                     "total) and 15 concentration spellings: key set, positivity, every stated concentration / quantity / "
                     "total met by the returned contents (over-determined requests: each stated value to a relative 2e-6), container "
                     "solvent depleted by a uniform aliquot with nothing lost, also when it already holds the solute; "
                     "acceptance iff the independent linear system has a unique positive solution."),
    'C12': dict(engine=E1, design='§4 C12',
                technique="symbolic execution of Container.create_solution_from (exact solve contract); result re-checked against definitions and an independent 2x2 oracle, z3",
                text="requested total and concentration met, new solution = uniform aliquot of the stock (+ of the solvent "
                     "container) + pure solvent, residuals + new = inputs + added solvent, refusal iff the independent "
                     "2x2 system has no solution with 0 <= stock share <= 1 and solvent >= 0; 8 stock/solvent variants x "
                     "11 concentration spellings x 6 quantity units."),
    'C07': dict(engine=E1, design='§4 C07',
                technique="symbolic execution of plate/slice operations vs the fold of the stand-alone Container operation (same engine), term-for-term; z3 for path feasibility",
                text="for transfer (15 geometries), remove and fill_to (9 selection forms), directly and as recipe steps: every "
                     "addressed well equals the stand-alone operation on a free-standing copy, every other well is "
                     "identical to the input; 12 non-conforming shape pairs are rejected with ValueError."),
    'C08': dict(engine=E1, design='§4 C08',
                technique="symbolic execution of Recipe step adders + bake vs an eager interpreter over the direct operations, all programs up to the length bound; z3 decides path feasibility of the joint execution",
                text="for every program of <= 2 steps (thorough: + 500 seeded 3-step programs) over 19 step templates with all "
                     "quantities symbolic: bake raises iff the eager fold raises, the result dictionary has exactly the "
                     "declared and created names, and every container/well has the same substances, amounts and volume "
                     "as the fold; adding steps changes nothing before bake."),
    'C09': dict(engine=E1, design='§4 C09',
                technique="symbolic execution of bake + get_substance_used vs a step-boundary ledger from an eager interpreter; z3 decides each reported==ledger obligation with output rounding modelled",
                text="for baked programs over the C08 templates with every stage split point, substances water/NaCl(/DMSO), "
                     "several units, timeframes all/s1/s2 and destination sets (default, singletons, all, a pair): the "
                     "reported amount equals net gain of the destinations + discarded within output rounding, a "
                     "ValueError iff the ledger shows a net decrease, and stage amounts add up."),
    'C15': dict(engine=E1, design='§4 C15',
                technique="symbolic execution of bake + get_container_flows / get_amount_remaining vs the eager step-boundary ledger; z3 decides equalities, non-negativity and the balance identity",
                text="for every object used in baked programs over the C08 templates, per well for the plate, over "
                     "all/s1/s2: remaining before/after equals the ledger's content at the start/end, in/out equal the "
                     "ledger's gains/losses, flows >= 0 and in - out = change in remaining, output rounding modelled."),
    'C16': dict(engine=E1, design='§4 C16',
                technique="abstract-state fixpoint exploration of the real Recipe object (native BFS), then symbolic execution of every (representative history, call) pair with symbolic step quantities; z3 decides bake feasibility forks; verdicts vs a reference automaton",
                text="every call of a 31-call alphabet from every reachable abstract lifecycle state (quick: depth 4, "
                     "thorough: fixpoint) gets the reference automaton's verdict and successor state; after a successful "
                     "bake every call raises RuntimeError and steps, results and tracking answers do not change; a refused "
                     "bake leaves the recipe's objects and steps as they were. The "
                     "solver's part is the feasibility of bake over symbolic quantities; the universal quantification over "
                     "call sequences is by exhaustion of abstract states, stated as such."),
    'C04': dict(engine=E1, design='§4 C04',
                technique="symbolic execution of every public operation with structural fingerprints of all arguments before/after on every path incl. raising ones; z3 decides where multi-well operations / bake fail; depth-2 aliasing probes",
                text="25 scenarios covering the Container, Plate/slice and Recipe APIs: every argument (objects, lists, "
                     "slices incl. the plate they point to) has the same fingerprint after the call as before, on returning "
                     "and on raising paths, and still after a second operation has been applied to every returned object."),
    'C18': dict(engine=E1, design='§4 C18',
                technique="symbolic execution of each scenario under two module instances (two pyplate.yaml) on shared symbolic inputs in one z3 context; outputs and verdicts compared per joint path",
                text="13 public-API scenarios under the shipped configuration and under 8 (thorough 19) alternative storage "
                     "unit / precision settings: same accept/refuse verdict on every jointly feasible path and equal "
                     "answers in user units (volumes, concentrations, plate observers, usage tracking)."),
    'C19': dict(engine=E1, design='§4 C19',
                technique="symbolic execution with the text helpers un-stubbed; displayed numbers carried through the instruction text as tags, parsed back and compared with the contents delta by z3 (output rounding modelled)",
                text="get_human_readable_unit and convert_from_storage_to_standard_format preserve the physical amount for "
                     "every magnitude and sign; the instruction lines of constructor, transfer (liquid and solids-only "
                     "sources, 4 unit kinds), dilute, fill_to, create_solution, create_solution_from and 7 recipe step "
                     "kinds name the actual objects and state the actual amount to the displayed precision."),
    'C13': dict(engine=E2, design='§4 C13', category='other',
                level_text="Symbolic execution of the real Slicer/Plate.__getitem__ code by CrossHair 0.0.110 (z3) over unbounded symbolic integers and bounded symbolic strings, differential against an independent reference model of the documented addressing rules. Conditions reported 'Confirmed over all paths' are exhaustive within the stated bounds; 'Not confirmed' ones are bug-hunting only (no counterexample within the time budget) and are listed as such in the evidence. Counterexamples are replayed natively before being reported.",
                note="Trusted: CrossHair's models of int/str/Optional, z3, CPython, numpy basic slicing, the 40-line reference model in vf/xh/c13_conditions.py.",
                technique="CrossHair symbolic execution (z3) of Plate.__getitem__ / Slicer over symbolic int/str selectors, differential vs a reference selection model",
                text="15 selector forms x 5 (quick) / 8 (thorough) plate shapes and labelings (default, custom, digit strings, labels "
                     "differing only in whitespace): the wells selected by the real code, in order, equal the reference "
                     "model's, and out-of-range / malformed selectors are rejected; for custom-labelled plates every selector is "
                     "first resolved on a twin plate with permuted labels (process history)."),
    'C14': dict(engine=E1, design='§4 C14',
                technique="symx: symbolic values inside quantity/concentration strings, parsed value vs SI table (z3 / canonical forms); CrossHair: the string itself symbolic, accept/reject and value vs an independent recogniser",
                text="parse_quantity / parse_concentration return v*m(prefix) resp. v*m(pn)/(w*m(pd)) for the complete "
                     "prefix x unit tables, 6 classes of equivalent spellings parse equal and give identical containers "
                     "through construction, transfer, create_solution, dilute, fill_to and get_concentration; small values "
                     "with small prefixes keep six significant digits (delta rounding model); with the string symbolic "
                     "(CrossHair) malformed strings are rejected and well-formed ones accepted, a value with any one printable "
                     "ASCII character inserted means what float() says or is rejected, and each of 9 API slots accepts exactly "
                     "its kinds of unit over the whole prefix x base table (a molarity is not an amount, a mass not a capacity)."),
    'C02': dict(engine=E1, design='§4 C02',
                technique="symbolic execution of Container.transfer/Plate.transfer with z3 (QF_NRA/LRA), differential vs independent unit table",
                text="size of the aliquot (in the unit of q), uniformity (cross-multiplied ratios) and destination gain "
                     "= source loss, for container->container in every unit/prefix, 1->n, n->1, element-wise plate "
                     "forms and chains of two transfers; single-operation cells also under the delta rounding model."),
}

NOT_APPLICABLE = {
}

PENDING_REASON = "check not built yet in this round (planned: see DESIGN.md §4); not claimed until it runs"


def main():
    props = [json.loads(l) for l in open(f'{V}/properties.jsonl')]
    checks = []
    for p in props:
        pid = p['id']
        if pid not in CHECKS:
            continue
        c = CHECKS[pid]
        checks.append({
            'property_id': pid,
            'quick_cmd': f"./check {pid} --tier quick",
            'thorough_cmd': f"./check {pid} --tier thorough",
            'evidence_file': f"/verif/evidence/{pid}.json",
            'replay_cmd_template': f"./check {pid} --replay {{path}}",
            'engine': c['engine'],
            'level_claimed': {'category': c.get('category', 'model_checking'),
                              'text': (LEVEL_E1 if c['engine'] == E1 else c.get('level_text', '')) + ' This check: ' + c['text'],
                              'design_ref': c['design']},
            'level_note': c.get('note', NOTE_E1),
            'technique': c['technique'],
        })
    na = []
    for p in props:
        pid = p['id']
        if pid in CHECKS:
            continue
        na.append({'property_id': pid, 'reason': NOT_APPLICABLE.get(pid, PENDING_REASON)})
    manifest = {
        'version': 1,
        'setup_cmd': './setup.sh',
        'hooks': {
            'guard': 'PYPLATE_VERIF',
            'enable': 'no hooks are needed: the symbolic shims are assigned into the imported module from outside '
                      '(pyplate.pyplate.float / numpy), /repo is imported unmodified',
            'baseline_off_cmd': 'cd /repo && /venv/bin/python -m pytest -ra -q -p no:cacheprovider --timeout=900',
            'source_commits': [],
            'add_only': True,
        },
        'engines': [
            {'name': E1, 'path': 'vf/symx.py', 'serves_properties': sorted(k for k, v in CHECKS.items() if v['engine'] == E1),
             'kind_free_text': 'path-exhaustive dynamic symbolic execution of the real Python code: SymFloat(float) proxies '
                               'carrying canonical rational functions (sympy QQ.frac_field), forks at bool() of symbolic '
                               'comparisons, z3 5.1 decides path feasibility and obligations (polynomial sign conditions); '
                               'native replay of every witness'},
            {'name': E2, 'path': 'vf/xh', 'serves_properties': sorted(k for k, v in CHECKS.items() if v['engine'] == E2),
             'kind_free_text': 'CrossHair 0.0.110 (symbolic int/str with z3) on the real Slicer / Unit.parse_* code, '
                               'differential against a short reference model'},
        ],
        'checks': checks,
        'not_applicable': na,
        'notes': 'See DESIGN.md. ./check <ID> exits 0 (held), 1 (VIOLATION, natively replayed) or 2 (inconclusive: solver '
                 'unknown, unsupported construct, path bound hit - never success). known_findings.json lists genuine '
                 'defects that are recorded rather than repaired.',
    }
    with open(f'{V}/MANIFEST.json', 'w') as f:
        json.dump(manifest, f, indent=1)
    print('wrote MANIFEST.json:', len(checks), 'checks,', len(na), 'not_applicable')


if __name__ == '__main__':
    main()
