#!/usr/bin/env python3
"""Validate MANIFEST.json and evidence/*.json against the schemas in /root/.vp."""
import json, sys, glob, os
import jsonschema
V = os.path.dirname(os.path.dirname(os.path.abspath(__file__)))
ok = True
ms = json.load(open('/root/.vp/MANIFEST.schema.json'))
es = json.load(open('/root/.vp/EVIDENCE.schema.json'))
m = json.load(open(f'{V}/MANIFEST.json'))
try:
    jsonschema.validate(m, ms); print('MANIFEST ok', len(m['checks']), 'checks')
except jsonschema.ValidationError as e:
    ok = False; print('MANIFEST INVALID', e.message)
props = [json.loads(l)['id'] for l in open(f'{V}/properties.jsonl')]
claimed = {c['property_id'] for c in m['checks']}
na = {c['property_id'] for c in m.get('not_applicable', [])}
for p in props:
    if p not in claimed and p not in na:
        ok = False; print('property neither claimed nor not_applicable:', p)
for f in sorted(glob.glob(f'{V}/evidence/*.json')):
    try:
        jsonschema.validate(json.load(open(f)), es); print('evidence ok', os.path.basename(f))
    except jsonschema.ValidationError as e:
        ok = False; print('evidence INVALID', f, e.message)
sys.exit(0 if ok else 1)
