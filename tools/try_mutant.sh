#!/bin/sh
# tools/try_mutant.sh <patch.diff> <ID> [<ID> ...]   - applies the patch to /repo, runs the quick checks, restores /repo.
# Prints one line per check: <ID> exit=<rc> violations=<n> (first violating cells).  Never leaves /repo modified.
set -u
cd "$(dirname "$0")/.."
P="$1"; shift
if ! git -C /repo diff --quiet; then echo "/repo is not clean"; exit 3; fi
git -C /repo apply "$P" || { echo "patch does not apply"; exit 3; }
trap 'git -C /repo checkout -- . ' EXIT INT TERM
TIER="${TIER:-quick}"
for id in "$@"; do
  ./check "$id" --tier "$TIER" --no-evidence > "/tmp/mut_$id.log" 2>&1
  rc=$?
  echo "$id exit=$rc violations=$(grep -c '^VIOLATION' /tmp/mut_$id.log) inconclusive=$(grep -c '^INCONCLUSIVE' /tmp/mut_$id.log) :: $(grep -A1 '^VIOLATION' /tmp/mut_$id.log | grep -v '^VIOLATION\|^--' | head -3 | cut -c1-150 | tr '\n' ';')"
done
