#!/bin/sh
# tools/try_mutant_wt.sh <seed dir or patch.diff> <ID> [<ID> ...]
# Like try_mutant.sh, but never touches /repo: a scratch worktree of /repo's HEAD is created under /tmp, the patch is
# applied there, and the checks run against it through VERIF_REPO.  Several of these can run side by side.
# Prints one line per check: <seed> <ID> exit=<rc> violations=<n> ... ; removes the worktree afterwards.
# Env: TIER (quick), JOBS (workers per check, default 6).
set -u
cd "$(dirname "$0")/.."
P="$1"; shift
[ -d "$P" ] && P="$P/patch.diff"
case "$P" in /*) ;; *) P="$(pwd)/$P";; esac
TAG="$(basename "$(dirname "$P")")"
WT="$(mktemp -d /tmp/mutwt_${TAG}_XXXXXX)"
rmdir "$WT"
git -C /repo worktree add -q --detach "$WT" HEAD || { echo "$TAG: cannot create worktree"; exit 3; }
trap 'git -C /repo worktree remove --force "$WT" 2>/dev/null; rm -rf "$WT"' EXIT INT TERM
git -C "$WT" apply "$P" || { echo "$TAG: patch does not apply"; exit 3; }
TIER="${TIER:-quick}"
mkdir -p /tmp/mutlogs
for id in "$@"; do
  L="/tmp/mutlogs/${TAG}_$id.log"
  s=$(date +%s)
  VERIF_REPO="$WT" ./check "$id" --tier "$TIER" --no-evidence -j "${JOBS:-6}" ${CELL:+--cell "$CELL"} > "$L" 2>&1
  rc=$?
  e=$(date +%s)
  echo "$TAG $id exit=$rc t=$((e-s))s violations=$(grep -c '^VIOLATION' "$L") inconclusive=$(grep -c '^INCONCLUSIVE' "$L") :: $(grep -A1 '^VIOLATION' "$L" | grep -v '^VIOLATION\|^--' | head -3 | cut -c1-150 | tr '\n' ';')"
done
