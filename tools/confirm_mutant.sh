#!/bin/sh
# tools/confirm_mutant.sh <worktree> <A|B>  - confirms in the scratch worktree: demo passes without the change,
# the 80 tests pass with it, the demo fails with it.  Leaves the worktree sources unchanged.
WT="$1"; L="$2"
cd "$WT" || exit 3
git checkout -q -- pyplate tests 2>/dev/null
run() { PYPLATE_CONFIG="$WT/pyplate" PYTHONPATH="$WT" /venv/bin/python "$@"; }
run demo$L.py > /tmp/demo_clean.log 2>&1; d0=$?
git apply mutant$L.diff || { echo "diff does not apply"; exit 3; }
t=$(PYPLATE_CONFIG="$WT/pyplate" /venv/bin/python -m pytest -q -p no:cacheprovider 2>&1 | tail -1)
run demo$L.py > /tmp/demo_mut.log 2>&1; d1=$?
git checkout -q -- pyplate
echo "demo clean exit=$d0 ; tests with change: $t ; demo with change exit=$d1 ($(tail -1 /tmp/demo_mut.log | cut -c1-160))"
