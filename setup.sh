#!/bin/sh
# Idempotent, offline: build the overlay interpreter used by every check.
#   /verif/.venv  = venv of /venv/bin/python (3.12) that *sees* /venv's site-packages
#   (numpy, pandas, yaml, tabulate: what pyplate imports) plus crosshair-tool, z3-solver,
#   cvc5, sympy, jsonschema from the offline wheelhouse.  /venv and /repo stay untouched.
set -eu
cd "$(dirname "$0")"
VENV="$PWD/.venv"
STAMP="$VENV/.verif_ok"
WHEELS=/opt/veriftools/wheels
if [ -f "$STAMP" ] && "$VENV/bin/python" -c "import z3, sympy, crosshair, numpy, yaml" 2>/dev/null; then
    exit 0
fi
(
  flock 9
  if [ -f "$STAMP" ] && "$VENV/bin/python" -c "import z3, sympy, crosshair, numpy, yaml" 2>/dev/null; then
      exit 0
  fi
  rm -rf "$VENV"
  /venv/bin/python -m venv "$VENV"
  SP=$("$VENV/bin/python" -c "import sysconfig; print(sysconfig.get_paths()['purelib'])")
  echo "import site; site.addsitedir('/venv/lib/python3.12/site-packages')" > "$SP/verif_overlay.pth"
  PIP_NO_INDEX=1 "$VENV/bin/python" -m pip install --quiet --no-index --find-links "$WHEELS" \
      crosshair-tool z3-solver cvc5 sympy jsonschema >/dev/null
  "$VENV/bin/python" -c "import z3, sympy, crosshair, numpy, yaml, jsonschema"
  touch "$STAMP"
) 9>"$PWD/.setup.lock"
