"""Runs one harness cell: explores every path symbolically, discharges the obligations with the
solver, replays every witness natively (companion run), classifies counterexamples."""
from __future__ import annotations

import importlib
import json
import os
import signal
import sys
import time
import traceback
from fractions import Fraction

import z3

from . import symx
from .env import get_env, REPO
from .hctx import H, NativeVacuous, form_z3, form_eval, form_ground, form_neg_robust, form_text

MAX_VIOLATIONS_PER_CELL = 6
ROBUST_MARGINS = [Fraction(1), Fraction(1, 1000), Fraction(1, 10**6)]


class CellTimeout(BaseException):
    pass


def _alarm(signum, frame):
    raise CellTimeout()


# ---- functions-entered measurement (sys.monitoring, PY_START, disabled per code object after first hit)
_entered: set[str] = set()
_mon_on = False


def _start_monitoring():
    global _mon_on
    if _mon_on:
        return
    mon = sys.monitoring
    tid = mon.PROFILER_ID
    try:
        mon.use_tool_id(tid, "verif")
    except ValueError:
        return
    repo_prefix = REPO.rstrip('/') + '/pyplate/'

    def on_start(code, offset):
        fn = code.co_filename
        if fn.startswith(repo_prefix):
            _entered.add(f"{fn[len(REPO.rstrip('/')) + 1:]}:{code.co_qualname}")
        return mon.DISABLE

    mon.register_callback(tid, mon.events.PY_START, on_start)
    mon.set_events(tid, mon.events.PY_START)
    _mon_on = True


def _fr_str(v: Fraction) -> str:
    return f"{v.numerator}/{v.denominator}" if v.denominator != 1 else str(v.numerator)


def _witness_json(w):
    return {k: _fr_str(v) for k, v in w.items() if not k.startswith('rd!')}


def _witness_from_json(d):
    return {k: Fraction(v) for k, v in d.items()}


def _approx(w):
    return {k: float(v) for k, v in w.items() if not k.startswith('rd!')}


def run_native(mod, cell, witness):
    """Run the harness body natively (plain floats, unshimmed PyPlate) on a witness.
    Returns dict(outcome, failures=[(label, region, text)], n_obligations, observations, error)."""
    env = get_env(cell.get('config'), cell.get('config_tag', 'default'))
    env.set_symbolic(False)
    h = H(env, cell['params'], witness=witness)
    fn = getattr(mod, cell['fn'])
    res = {'outcome': None, 'failures': [], 'n_obligations': 0, 'observations': [], 'error': None, 'vacuous': False,
           'confirm_only': set()}
    try:
        fn(h)
    except NativeVacuous as e:
        res['vacuous'] = True
        res['error'] = str(e)
        return res
    except Exception as e:  # noqa: BLE001
        res['error'] = f"{type(e).__name__}: {e}"
        res['error_type'] = type(e).__name__
        res['traceback'] = traceback.format_exc(limit=6)
    res['outcome'] = h.outcome
    res['n_obligations'] = len(h.obligations)
    for ob in h.obligations:
        if not ob.cond.len:
            res['failures'].append((ob.label, ob.region, ob.detail or ob.cond.text))
            if not ob.companion:
                res['confirm_only'].add((ob.label, ob.region))
    res['observations'] = [(k, (float(v) if isinstance(v, (int, float)) else v)) for k, v in h.observations]
    res['notes'] = h.notes
    return res


def run_cell(mod_name: str, cell: dict) -> dict:
    """Worker entry point."""
    t_start = time.perf_counter()
    mod = importlib.import_module(mod_name)
    _start_monitoring()
    env = get_env(cell.get('config'), cell.get('config_tag', 'default'))
    fn = getattr(mod, cell['fn'])
    out = {
        'id': cell['id'], 'fn': cell['fn'], 'paths': 0, 'paths_ok': 0, 'aborted': 0, 'unsupported': [],
        'hit_limit': False, 'timeout': False, 'stats': symx.Stats().as_dict(), 'obligations': 0,
        'discharged_ground': 0, 'discharged_solver': 0, 'violations': [], 'inconclusive': [],
        'native_runs': 0, 'native_vacuous': 0, 'divergences': [], 'samples': [], 'outcomes': {},
        'decisions': 0, 'roundings': 0, 'unknown_feasibility': 0, 'max_gens': 0, 'harness_errors': [],
        'labels': {}, 'boundary_only': [],
        'cross_check': {'queries': 0, 'cvc5': {}, 'z3-4.8': {}, 'disagreements': []},
    }
    xc_budget = cell.get('cross_check', 0)
    stats = symx.Stats()
    seen_violation_keys = set()

    def add_violation(v):
        key = (v['label'], v['region'])
        if key in seen_violation_keys and len(out['violations']) >= 1:
            # keep one witness per (label, region) per cell
            for old in out['violations']:
                if (old['label'], old['region']) == key:
                    old['count'] = old.get('count', 1) + 1
                    return
        seen_violation_keys.add(key)
        if len(out['violations']) < MAX_VIOLATIONS_PER_CELL:
            v['count'] = 1
            out['violations'].append(v)

    def sym_run(ctx):
        env.set_symbolic(True, stub_text_helpers=cell.get('stub_text', True))
        h = H(env, cell['params'], sym_ctx=ctx)
        fn(h)
        return h

    def on_path(pr):
        ctx = pr.ctx
        out['paths'] += 1
        out['decisions'] += len(ctx.trace)
        out['roundings'] += ctx.roundings
        out['unknown_feasibility'] += ctx.unknown_feasibility
        out['max_gens'] = max(out['max_gens'], ctx.ngens)
        try:
            if pr.kind == 'abort':
                out['aborted'] += 1
                return
            if pr.kind == 'unsupported':
                out['unsupported'].append(str(pr.value)[:200])
                return
            witness = None
            try:
                witness = ctx.witness()
            except symx.Abort:
                out['aborted'] += 1
                return
            if witness is None:
                out['inconclusive'].append({'label': '(path feasibility)', 'why': 'no rational model for the path condition'})
            if pr.kind == 'exc':
                e = pr.value
                tb = ''.join(traceback.format_exception(type(e), e, e.__traceback__, limit=-5))
                # an exception the harness did not classify: confirm natively
                nat = run_native(mod, cell, witness) if witness is not None else None
                if nat is not None:
                    out['native_runs'] += 1
                if nat is not None and nat.get('error_type') == type(e).__name__:
                    add_violation({'label': 'no-unclassified-exception', 'region': type(e).__name__,
                                   'detail': f"{type(e).__name__}: {e}", 'witness': _witness_json(witness),
                                   'found_by': 'solver-path', 'native': nat['error'], 'traceback': tb[-1500:]})
                else:
                    out['harness_errors'].append({'error': f"{type(e).__name__}: {e}", 'traceback': tb[-2000:],
                                                  'native': None if nat is None else nat.get('error')})
                return
            h: H = pr.value
            out['paths_ok'] += 1
            out['outcomes'][h.outcome] = out['outcomes'].get(h.outcome, 0) + 1
            # ---- discharge obligations
            failed_labels = {}
            for ob in h.obligations:
                out['obligations'] += 1
                lab = out['labels'].setdefault(ob.label, [0, 0])
                lab[0] += 1
                form = ob.cond.form
                g = form_ground(form)
                if g is True:
                    out['discharged_ground'] += 1
                    lab[1] += 1
                    continue
                cex_model = None
                verdict = None
                if g is False:
                    verdict = 'sat'
                    cex_model = ctx.model if ctx.model_valid else None
                else:
                    mv = form_eval(ctx, form) if (ctx.model is not None and ctx.model_valid) else None
                    if mv is False:
                        verdict = 'sat'
                        cex_model = list(ctx.model)
                    else:
                        r = ctx.check(z3.Not(form_z3(ctx, form)))
                        if r == z3.unknown:
                            r = _retry_unknown(ctx, form)
                        if r == z3.unsat:
                            out['discharged_solver'] += 1
                            lab[1] += 1
                            if out['cross_check']['queries'] < xc_budget and ctx.lowering == 'cleared':
                                _cross_check(ctx, z3.Not(form_z3(ctx, form)), out)
                            continue
                        if r == z3.sat:
                            verdict = 'sat'
                            cex_model = ctx.extract_model()
                        else:
                            out['inconclusive'].append({'label': ob.label, 'region': ob.region,
                                                        'why': 'solver unknown on obligation'})
                            continue
                # ---- counterexample: confirm natively, robustify if marginal
                confirmed = None
                tried = []
                candidates = []
                if cex_model is not None:
                    candidates.append(('exact', {ctx.names[i]: cex_model[i] for i in range(ctx.ngens)}))
                for label_m, w in _robust_candidates(ctx, form, candidates):
                    nat = run_native(mod, cell, w)
                    out['native_runs'] += 1
                    tried.append(label_m)
                    if nat['vacuous']:
                        continue
                    hit = [f for f in nat['failures'] if f[0] == ob.label and f[1] == ob.region]
                    if hit or (nat['error'] and not nat['failures'] and ob.label == 'no-unclassified-exception'):
                        confirmed = (w, nat, hit)
                        break
                if confirmed is None and cex_model is not None:
                    # z3 likes boundary points, where the float run may take another branch: look at further,
                    # clearly different witnesses of the same counterexample region
                    for label_m, w in _more_witnesses(ctx, form, cex_model, 3 if ctx.eq_decisions > 0 else 5):
                        nat = run_native(mod, cell, w)
                        out['native_runs'] += 1
                        tried.append(label_m)
                        if nat['vacuous']:
                            continue
                        hit = [f for f in nat['failures'] if f[0] == ob.label and f[1] == ob.region]
                        if hit:
                            confirmed = (w, nat, hit)
                            break
                    if confirmed is None and ctx.eq_decisions > 0:
                        out['boundary_only'].append({
                            'label': ob.label, 'region': ob.region,
                            'why': 'violated only on a measure-zero path of the real-number model (an exact equality '
                                   'between inputs); no witness reproduces in floats',
                            'witness': _witness_json({ctx.names[i]: cex_model[i] for i in range(ctx.ngens)})})
                        continue
                if confirmed is not None:
                    w, nat, hit = confirmed
                    add_violation({'label': ob.label, 'region': ob.region, 'detail': ob.detail or ob.cond.text,
                                   'witness': _witness_json(w), 'found_by': 'solver',
                                   'native': hit[0][2] if hit else nat['error'],
                                   'formula': form_text(form, ctx.names)[:600]})
                    failed_labels[ob.label] = True
                else:
                    out['inconclusive'].append({'label': ob.label, 'region': ob.region,
                                                'why': 'counterexample in the real-number model did not reproduce in floats',
                                                'tried': tried,
                                                'witness': _witness_json({ctx.names[i]: cex_model[i] for i in range(ctx.ngens)}) if cex_model else None,
                                                'formula': form_text(form, ctx.names)[:600]})
            # ---- native companion run on the path witness
            if witness is not None:
                nat = run_native(mod, cell, witness)
                out['native_runs'] += 1
                if nat['vacuous']:
                    out['native_vacuous'] += 1
                else:
                    if nat['error'] and not nat['failures']:
                        add_violation({'label': 'no-unclassified-exception', 'region': nat.get('error_type', ''),
                                       'detail': nat['error'], 'witness': _witness_json(witness),
                                       'found_by': 'native-companion', 'native': nat['error'],
                                       'traceback': nat.get('traceback', '')[-1500:]})
                    for (label, region, text) in nat['failures']:
                        if label in failed_labels or (label, region) in nat['confirm_only']:
                            continue
                        add_violation({'label': label, 'region': region, 'detail': text,
                                       'witness': _witness_json(witness), 'found_by': 'native-companion',
                                       'native': text})
                    # translator validation: observables
                    margin = ctx.min_margin
                    interior = margin is not None and margin > Fraction(1, 10**6)
                    if nat['outcome'] != h.outcome:
                        if interior:
                            out['divergences'].append({'kind': 'outcome', 'sym': h.outcome, 'native': nat['outcome'],
                                                       'witness': _approx(witness)})
                    elif interior:
                        nobs = dict(nat['observations'])
                        for k, v in h.observations:
                            sv = h.value_at(v)
                            nv = nobs.get(k)
                            if sv is None or not isinstance(nv, float):
                                continue
                            if abs(sv - nv) > 1e-6 + 1e-6 * max(abs(sv), abs(nv)):
                                out['divergences'].append({'kind': 'observable', 'label': k, 'sym': sv, 'native': nv,
                                                           'witness': _approx(witness)})
            if len(out['samples']) < 2 and (h.obligations or not out['samples']):
                out['samples'].append({
                    'cell': cell['id'], 'outcome': h.outcome, 'decisions': len(ctx.trace),
                    'witness': _approx(witness) if witness else None,
                    'obligations': [f"{ob.label}[{ob.region}]" for ob in h.obligations][:12],
                    'example_obligation': (form_text(h.obligations[-1].cond.form, ctx.names)[:300]
                                           if h.obligations else None),
                    'path_condition': [str(a)[:160] for a in list(ctx.solver.assertions())[-6:]],
                })
        finally:
            stats.merge(ctx.stats)
        # a cell whose feasibility queries keep timing out (20 s each) is not going to be decided within its time limit:
        # stop it early and report it as inconclusive (what was found so far is kept)
        if out['unknown_feasibility'] > cell.get('max_unknown', 12):
            out['timeout_why'] = f"solver budget exhausted: {out['unknown_feasibility']} feasibility queries undecided"
            raise CellTimeout()

    symx.set_pool(cell.get('gens', 56))
    signal.signal(signal.SIGALRM, _alarm)
    signal.setitimer(signal.ITIMER_REAL, cell.get('time_limit', 900))
    try:
        n, hit = symx.explore(sym_run, max_paths=cell.get('max_paths', 400), on_path=on_path,
                              round_mode=cell.get('round', 'lite'), lowering=cell.get('lowering', 'cleared'),
                              seed=cell.get('seed', 0),
                              lite_digits=min(8, env.config.internal_precision))
        out['hit_limit'] = hit
    except CellTimeout:
        out['timeout'] = True
    finally:
        signal.setitimer(signal.ITIMER_REAL, 0)
        env.set_symbolic(False)
    out['stats'] = stats.as_dict()
    out['functions_entered'] = sorted(_entered)
    out['wall_s'] = round(time.perf_counter() - t_start, 3)
    return out


def _cross_check(ctx, negated, out):
    """Re-decide one discharged query (path condition AND negated obligation, exported as SMT-LIB2 by z3) with two
    independent solver builds: cvc5 1.0 and z3 4.8 binaries.  Expected answer: unsat."""
    import subprocess
    import tempfile
    try:
        ctx.solver.push()
        ctx.solver.add(negated)
        text = "(set-logic QF_NRA)\n" + ctx.solver.to_smt2()
    finally:
        ctx.solver.pop()
    rec = out['cross_check']
    with tempfile.TemporaryDirectory(prefix='verif_xc_') as d:
        path = os.path.join(d, 'q.smt2')
        with open(path, 'w') as f:
            f.write(text)
        for name, cmd in (('cvc5', ['cvc5', '--tlimit=15000', path]), ('z3-4.8', ['/usr/bin/z3', '-T:15', path])):
            try:
                p = subprocess.run(cmd, capture_output=True, text=True, timeout=40)
                o = (p.stdout + p.stderr)
                if '(error' in o:
                    ans = 'error'
                else:
                    toks = [ln.strip() for ln in p.stdout.splitlines() if ln.strip() in ('sat', 'unsat', 'unknown')]
                    ans = toks[0] if toks else 'unknown'
            except (subprocess.TimeoutExpired, OSError):
                ans = 'unknown'
            rec[name][ans] = rec[name].get(ans, 0) + 1
            if ans == 'sat':
                rec['disagreements'].append({'solver': name, 'query': text[:1500]})
    rec['queries'] += 1


def _retry_unknown(ctx, form):
    """Fallback chain for an `unknown`: other lowering, then the nlsat tactic."""
    other = 'quotient' if ctx.lowering == 'cleared' else 'cleared'
    saved = ctx.lowering
    try:
        ctx.lowering = other
        r = ctx.check(z3.Not(form_z3(ctx, form)))
        if r != z3.unknown:
            return r
    finally:
        ctx.lowering = saved
    try:
        s = z3.Tactic('qfnra-nlsat').solver()
        s.set("timeout", 60000)
        for a in ctx.solver.assertions():
            s.add(a)
        s.add(z3.Not(form_z3(ctx, form)))
        ctx.stats.queries += 1
        t = time.perf_counter()
        r = s.check()
        ctx.stats.solver_s += time.perf_counter() - t
        if r == z3.sat:
            ctx.stats.sat += 1
            # cannot hand the model over through ctx.solver; re-ask it with the model as a hint is not possible,
            # so report sat via ctx.solver on success only
            return z3.unknown
        if r == z3.unsat:
            ctx.stats.unsat += 1
            return r
    except z3.Z3Exception:
        pass
    return _portfolio_unsat(ctx, form)


def _portfolio_unsat(ctx, form):
    """Last step of the fallback chain: the same query (path condition AND negated obligation, exported as SMT-LIB2 by
    z3) put to the cvc5 1.0 and z3 4.8 binaries, 90 s each.  Only `unsat` (without any error line) is taken over; a `sat`
    cannot deliver a model through this route and stays `unknown` (inconclusive)."""
    import subprocess
    import tempfile
    try:
        ctx.solver.push()
        ctx.solver.add(z3.Not(form_z3(ctx, form)))
        text = "(set-logic QF_NRA)\n" + ctx.solver.to_smt2()
    except z3.Z3Exception:
        return z3.unknown
    finally:
        ctx.solver.pop()
    with tempfile.TemporaryDirectory(prefix='verif_pf_') as d:
        path = os.path.join(d, 'q.smt2')
        with open(path, 'w') as f:
            f.write(text)
        for cmd in (['cvc5', '--tlimit=90000', path], ['/usr/bin/z3', '-T:90', path]):
            ctx.stats.queries += 1
            t = time.perf_counter()
            try:
                p = subprocess.run(cmd, capture_output=True, text=True, timeout=120)
            except (subprocess.TimeoutExpired, OSError):
                continue
            finally:
                ctx.stats.solver_s += time.perf_counter() - t
            o = p.stdout + p.stderr
            toks = [ln.strip() for ln in p.stdout.splitlines() if ln.strip() in ('sat', 'unsat', 'unknown')]
            if '(error' not in o and toks and toks[0] == 'unsat':
                ctx.stats.unsat += 1
                return z3.unsat
    return z3.unknown


def _robust_candidates(ctx, form, initial):
    """Yield (tag, witness) counterexample candidates: the exact model first, then models that violate
    the obligation by decreasing margins."""
    for c in initial:
        yield c
    for mu in ROBUST_MARGINS:
        try:
            r = ctx.check(form_neg_robust(ctx, form, mu))
        except z3.Z3Exception:
            continue
        if r == z3.sat:
            m = ctx.extract_model()
            if m is not None:
                yield (f"margin {float(mu):g}", {ctx.names[i]: m[i] for i in range(ctx.ngens)})


def _more_witnesses(ctx, form, first_model, k):
    """Further models of PC and not(form), each differing from the previous ones in some input."""
    neg = z3.Not(form_z3(ctx, form))
    blocks = []
    models = [first_model]
    for n in range(k):
        for m in models[len(blocks):]:
            far = []
            for i in ctx.inputs.values():
                v = m[i]
                d = abs(v) / 50 + Fraction(1, 1000)
                far.append(z3.Or(ctx.zvars[i] > symx._zq(v + d), ctx.zvars[i] < symx._zq(v - d)))
            blocks.append(z3.Or(far or [z3.BoolVal(False)]))
        try:
            r = ctx.check(neg, *blocks)
        except z3.Z3Exception:
            return
        if r != z3.sat:
            return
        m = ctx.extract_model()
        if m is None:
            return
        models.append(m)
        yield (f"alt {n + 1}", {ctx.names[i]: m[i] for i in range(ctx.ngens)})


def replay(mod_name: str, cell: dict, witness_json: dict) -> dict:
    mod = importlib.import_module(mod_name)
    return run_native(mod, cell, _witness_from_json(witness_json))
