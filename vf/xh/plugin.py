"""CrossHair plugin: PyPlate calls the unbound descriptor `str.split(x)`; CrossHair's symbolic strings are not `str`
instances, so the descriptor refuses them.  Route the unbound call to the object's own method."""
from crosshair import register_patch


def _split(self, *a, **k):
    return self.split(*a, **k)


register_patch(str.split, _split)
