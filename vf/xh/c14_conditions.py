"""CrossHair conditions for C14 (grammar part): strings that are not quantity / concentration strings are rejected,
strings that are get the SI meaning.  The whole string (or its unit token) is symbolic.

The oracle is a recogniser written with plain string operations (no regex) and its own prefix table.
"""
from typing import Optional, Tuple

import pyplate.pyplate as pp

PREFIX = {'n': 1e-9, 'u': 1e-6, 'µ': 1e-6, 'm': 1e-3, 'c': 1e-2, 'd': 1e-1, '': 1.0, 'da': 1e1, 'k': 1e3, 'M': 1e6}
Q_BASES = ['mol', 'g', 'L', 'M', 'U']          # quantity strings (M: the library also uses them for molarities)
C_BASES = ['mol', 'L', 'g', 'U']
MAXLEN = 6


def _float_ok(text: str) -> Optional[float]:
    try:
        return float(text)
    except ValueError:
        return None


def _unit(token: str, bases):
    """(multiplier, base) if token is prefix+base for a known prefix and base, else None.
    Bases are tried in the library's documented order of preference (longest unambiguous suffix first)."""
    for base in bases:
        if token.endswith(base):
            p = token[:len(token) - len(base)]
            if p in PREFIX:
                return PREFIX[p], base
            return None
    return None


def _close(a: float, b: float) -> bool:
    if a != a or b != b:            # nan
        return (a != a) == (b != b)
    if a in (float('inf'), float('-inf')) or b in (float('inf'), float('-inf')):
        return a == b
    return abs(a - b) <= 1e-9 * max(abs(a), abs(b)) + 1e-300


# ---- quantities ----------------------------------------------------------------------------------------------------
def ref_quantity(s: str):
    if s.count(' ') != 1:
        return None
    v, u = s.split(' ')
    x = _float_ok(v)
    if x is None:
        return None
    r = _unit(u, Q_BASES)
    if r is None:
        return None
    return x * r[0], r[1]


def c_quantity_string(s: str) -> bool:
    """
    pre: len(s) <= MAXLEN
    post: _
    """
    want = ref_quantity(s)
    try:
        got = pp.Unit.parse_quantity(s)
    except Exception:
        return want is None
    return want is not None and got[1] == want[1] and _close(got[0], want[0])


def c_quantity_unit(u: str) -> bool:
    """
    pre: len(u) <= 5
    post: _
    """
    want = ref_quantity('2.5 ' + u) if ' ' not in u else None
    try:
        got = pp.Unit.parse_quantity('2.5 ' + u)
    except Exception:
        return want is None
    return want is not None and got[1] == want[1] and _close(got[0], want[0])


def c_quantity_value(v: str) -> bool:
    """
    pre: len(v) <= 6
    post: _
    """
    want = ref_quantity(v + ' mL') if ' ' not in v else None
    try:
        got = pp.Unit.parse_quantity(v + ' mL')
    except Exception:
        return want is None
    return want is not None and got[1] == 'L' and _close(got[0], want[0])


# ---- concentrations ------------------------------------------------------------------------------------------------
def ref_concentration(s: str):
    """(value in base units, numerator base, denominator base) or None"""
    if len(s) == 0:
        return None
    if '/' not in s:
        if s[-1] == 'm':
            s = s[:-1] + 'mol/kg'
        elif s[-1] == 'M':
            s = s[:-1] + 'mol/L'
        else:
            return None
    percent = False
    wv = pp.config.default_weight_volume_units
    for suffix, repl in (('%v/v', 'L/L'), ('%w/w', 'g/g'), ('%w/v', wv)):
        if s.endswith(suffix):
            s = s[:len(s) - 4] + repl
            percent = True
            break
    parts = s.split('/')
    if len(parts) != 2:
        return None
    num, den = parts[0].split(), parts[1].split()
    if len(num) != 2 or len(den) not in (1, 2):
        return None
    x = _float_ok(num[0])
    if x is None:
        return None
    if percent:
        x = x / 100
    if len(den) == 2:
        w = _float_ok(den[0])
        if w is None:
            return None
        if w == 0:
            return None
        x = x / w
        den = den[1:]
    un, ud = _unit(num[1], C_BASES), _unit(den[0], C_BASES)
    if un is None or ud is None:
        return None
    return x * un[0] / ud[0], un[1], ud[1]


def _agree_conc(s: str) -> bool:
    want = ref_concentration(s)
    try:
        got = pp.Unit.parse_concentration(s)
    except Exception:
        return want is None
    if want is None:
        return False
    return got[1] == want[1] and got[2] == want[2] and _close(got[0], want[0])


def c_concentration_string(s: str) -> bool:
    """
    pre: len(s) <= MAXLEN
    post: _
    """
    return _agree_conc(s)


def c_concentration_unit(u: str) -> bool:
    """
    pre: len(u) <= 5
    post: _
    """
    return _agree_conc('0.25 ' + u)


def c_concentration_ratio_units(a: str, b: str) -> bool:
    """
    pre: len(a) <= 3 and len(b) <= 3
    post: _
    """
    return _agree_conc('0.25 ' + a + '/' + b) and _agree_conc('0.25 ' + a + '/10 ' + b)


def c_concentration_tail(t: str) -> bool:
    """
    pre: len(t) <= 4
    post: _
    """
    # anything appended to a valid concentration string
    return _agree_conc('1 umol/10 uL' + t) and _agree_conc('1 M' + t)


# ---- values with one arbitrary printable character in them -----------------------------------------------------------
ALPHABET = [chr(c) for c in range(32, 127)]


def _with_char(i: int, pos: int) -> str:
    ch = ALPHABET[i]
    return ['15' + ch, '1' + ch + '5', ch + '15'][pos]


def c_quantity_value_char(i: int, pos: int) -> bool:
    """
    pre: 0 <= i < 95 and 0 <= pos < 3
    post: _
    """
    # '1.5 mL' is a quantity; '1,5 mL', '1_5 mL', '1;5 mL', '15% mL' ... are what float() says they are, nothing else
    v = _with_char(i, pos)
    want = ref_quantity(v + ' mL') if ' ' not in v else None
    try:
        got = pp.Unit.parse_quantity(v + ' mL')
    except Exception:
        return want is None
    return want is not None and got[1] == 'L' and _close(got[0], want[0])


def c_concentration_value_char(i: int, pos: int) -> bool:
    """
    pre: 0 <= i < 95 and 0 <= pos < 3
    post: _
    """
    return _agree_conc(_with_char(i, pos) + ' mM') and _agree_conc('1 mol/' + _with_char(i, pos) + ' L')


# ---- every slot of the API accepts the kinds of unit it is about, and only those ------------------------------------
# (a string that parses as *some* quantity is still malformed for a slot of another kind: a molarity is not an amount,
#  a mass is not a capacity).  The unit token is prefix table[i] + base table[j] with symbolic indices, so CrossHair
#  enumerates the whole table; the library call itself runs on the realised string outside CrossHair's tracing, because
#  the library hashes Substance/Container objects (float fields), which CrossHair's patched hash() cannot take.
_WATER = pp.Substance.liquid('water', 18.0153, 1.0)
_SALT = pp.Substance.solid('NaCl', 58.4428)
_LIP = pp.Substance.enzyme('lipase', '10 U/mg')
PL = ['n', 'u', 'µ', 'm', 'c', 'd', '', 'da', 'k', 'M']
BL = ['L', 'g', 'mol', 'U', 'M', 'x', '']


def _accepted(call, q) -> bool:
    try:
        call(q)
    except Exception:
        return False
    return True


def _accepted_concretely(call, q) -> bool:
    try:
        from crosshair import realize
        from crosshair.tracers import NoTracing, is_tracing
    except ImportError:
        return _accepted(call, q)
    if is_tracing():
        q = realize(q)
        with NoTracing():
            return _accepted(call, q)
    return _accepted(call, q)


def _slot(i: int, j: int, bases, call) -> bool:
    token = PL[i] + BL[j]
    want = BL[j] in bases
    # half a milli-unit of the base (0.5 mL, 0.5 mg, 0.5 mmol, 0.5 mU) written with the prefix under test
    value = repr(5e-4 / PREFIX[PL[i]])
    return _accepted_concretely(call, value + ' ' + token) == want


def _stock():
    return pp.Container('stock', initial_contents=[(_WATER, '1000 L'), (_SALT, '100 kg'), (_LIP, '10 MU')])


def c_slot_transfer(i: int, j: int) -> bool:
    """
    pre: 0 <= i < 10 and 0 <= j < 7
    post: _
    """
    return _slot(i, j, ('L', 'g', 'mol', 'U'), lambda q: pp.Container.transfer(_stock(), pp.Container('dst'), q))


def c_slot_plate_transfer(i: int, j: int) -> bool:
    """
    pre: 0 <= i < 10 and 0 <= j < 7
    post: _
    """
    return _slot(i, j, ('L', 'g', 'mol', 'U'),
                 lambda q: pp.Plate.transfer(_stock(), pp.Plate('p', '1 ML', rows=1, columns=1), q))


def c_slot_initial_contents(i: int, j: int) -> bool:
    """
    pre: 0 <= i < 10 and 0 <= j < 7
    post: _
    """
    return _slot(i, j, ('L', 'g', 'mol'), lambda q: pp.Container('c', initial_contents=[(_WATER, q)]))


def c_slot_fill_to(i: int, j: int) -> bool:
    """
    pre: 0 <= i < 10 and 0 <= j < 7
    post: _
    """
    return _slot(i, j, ('L', 'g', 'mol'), lambda q: pp.Container('c').fill_to(_WATER, q))


def c_slot_capacity(i: int, j: int) -> bool:
    """
    pre: 0 <= i < 10 and 0 <= j < 7
    post: _
    """
    return _slot(i, j, ('L',), lambda q: pp.Container('c', q)) and _slot(i, j, ('L',), lambda q: pp.Plate('p', q))


def c_slot_total_quantity(i: int, j: int) -> bool:
    """
    pre: 0 <= i < 10 and 0 <= j < 7
    post: _
    """
    return _slot(i, j, ('L', 'g', 'mol'),
                 lambda q: pp.Container.create_solution(_SALT, _WATER, concentration='0.001 M', total_quantity=q))


def c_slot_solute_quantity(i: int, j: int) -> bool:
    """
    pre: 0 <= i < 10 and 0 <= j < 7
    post: _
    """
    return _slot(i, j, ('L', 'g', 'mol'),
                 lambda q: pp.Container.create_solution(_SALT, _WATER, concentration='0.001 M', quantity=q))


def c_slot_solution_from_quantity(i: int, j: int) -> bool:
    """
    pre: 0 <= i < 10 and 0 <= j < 7
    post: _
    """
    return _slot(i, j, ('L', 'g', 'mol'),
                 lambda q: pp.Container.create_solution_from(_stock(), _SALT, '0.001 M', _WATER, q))


def c_slot_report_unit(i: int, j: int) -> bool:
    """
    pre: 0 <= i < 10 and 0 <= j < 7
    post: _
    """
    token = PL[i] + BL[j]
    want = BL[j] == 'L'
    got = []
    ok = _accepted_concretely(lambda u: got.append(pp.Container('w', initial_contents=[(_WATER, '2 L')]).get_volume(u)), token)
    if not want:
        return not ok
    return ok and abs(got[0] * PREFIX[PL[i]] - 2.0) <= 1e-9
