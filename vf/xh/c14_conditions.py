"""CrossHair conditions for C14 (grammar part): strings that are not quantity / concentration strings are rejected,
strings that are get the SI meaning.  The whole string (or its unit token) is symbolic.

The oracle is a recogniser written with plain string operations (no regex) and its own prefix table.
"""
from typing import Optional, Tuple

import pyplate.pyplate as pp

PREFIX = {'n': 1e-9, 'u': 1e-6, 'µ': 1e-6, 'm': 1e-3, 'c': 1e-2, 'd': 1e-1, '': 1.0, 'da': 1e1, 'k': 1e3, 'M': 1e6}
Q_BASES = ['mol', 'g', 'L', 'M', 'U']          # quantity strings (M: the library also uses them for molarities)
C_BASES = ['mol', 'L', 'g', 'U']
MAXLEN = 6


def _float_ok(text: str) -> Optional[float]:
    try:
        return float(text)
    except ValueError:
        return None


def _unit(token: str, bases):
    """(multiplier, base) if token is prefix+base for a known prefix and base, else None.
    Bases are tried in the library's documented order of preference (longest unambiguous suffix first)."""
    for base in bases:
        if token.endswith(base):
            p = token[:len(token) - len(base)]
            if p in PREFIX:
                return PREFIX[p], base
            return None
    return None


def _close(a: float, b: float) -> bool:
    if a != a or b != b:            # nan
        return (a != a) == (b != b)
    if a in (float('inf'), float('-inf')) or b in (float('inf'), float('-inf')):
        return a == b
    return abs(a - b) <= 1e-9 * max(abs(a), abs(b)) + 1e-300


# ---- quantities ----------------------------------------------------------------------------------------------------
def ref_quantity(s: str):
    if s.count(' ') != 1:
        return None
    v, u = s.split(' ')
    x = _float_ok(v)
    if x is None:
        return None
    r = _unit(u, Q_BASES)
    if r is None:
        return None
    return x * r[0], r[1]


def c_quantity_string(s: str) -> bool:
    """
    pre: len(s) <= MAXLEN
    post: _
    """
    want = ref_quantity(s)
    try:
        got = pp.Unit.parse_quantity(s)
    except Exception:
        return want is None
    return want is not None and got[1] == want[1] and _close(got[0], want[0])


def c_quantity_unit(u: str) -> bool:
    """
    pre: len(u) <= 5
    post: _
    """
    want = ref_quantity('2.5 ' + u) if ' ' not in u else None
    try:
        got = pp.Unit.parse_quantity('2.5 ' + u)
    except Exception:
        return want is None
    return want is not None and got[1] == want[1] and _close(got[0], want[0])


def c_quantity_value(v: str) -> bool:
    """
    pre: len(v) <= 6
    post: _
    """
    want = ref_quantity(v + ' mL') if ' ' not in v else None
    try:
        got = pp.Unit.parse_quantity(v + ' mL')
    except Exception:
        return want is None
    return want is not None and got[1] == 'L' and _close(got[0], want[0])


# ---- concentrations ------------------------------------------------------------------------------------------------
def ref_concentration(s: str):
    """(value in base units, numerator base, denominator base) or None"""
    if len(s) == 0:
        return None
    if '/' not in s:
        if s[-1] == 'm':
            s = s[:-1] + 'mol/kg'
        elif s[-1] == 'M':
            s = s[:-1] + 'mol/L'
        else:
            return None
    percent = False
    wv = pp.config.default_weight_volume_units
    for suffix, repl in (('%v/v', 'L/L'), ('%w/w', 'g/g'), ('%w/v', wv)):
        if s.endswith(suffix):
            s = s[:len(s) - 4] + repl
            percent = True
            break
    parts = s.split('/')
    if len(parts) != 2:
        return None
    num, den = parts[0].split(), parts[1].split()
    if len(num) != 2 or len(den) not in (1, 2):
        return None
    x = _float_ok(num[0])
    if x is None:
        return None
    if percent:
        x = x / 100
    if len(den) == 2:
        w = _float_ok(den[0])
        if w is None:
            return None
        if w == 0:
            return None
        x = x / w
        den = den[1:]
    un, ud = _unit(num[1], C_BASES), _unit(den[0], C_BASES)
    if un is None or ud is None:
        return None
    return x * un[0] / ud[0], un[1], ud[1]


def _agree_conc(s: str) -> bool:
    want = ref_concentration(s)
    try:
        got = pp.Unit.parse_concentration(s)
    except Exception:
        return want is None
    if want is None:
        return False
    return got[1] == want[1] and got[2] == want[2] and (_close(got[0], want[0]) or abs(got[0] - want[0]) <= 1e-10)


def c_concentration_string(s: str) -> bool:
    """
    pre: len(s) <= MAXLEN
    post: _
    """
    return _agree_conc(s)


def c_concentration_unit(u: str) -> bool:
    """
    pre: len(u) <= 5
    post: _
    """
    return _agree_conc('0.25 ' + u)


def c_concentration_ratio_units(a: str, b: str) -> bool:
    """
    pre: len(a) <= 3 and len(b) <= 3
    post: _
    """
    return _agree_conc('0.25 ' + a + '/' + b) and _agree_conc('0.25 ' + a + '/10 ' + b)


def c_concentration_tail(t: str) -> bool:
    """
    pre: len(t) <= 4
    post: _
    """
    # anything appended to a valid concentration string
    return _agree_conc('1 umol/10 uL' + t) and _agree_conc('1 M' + t)
