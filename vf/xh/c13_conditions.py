"""CrossHair conditions for C13: every documented way of addressing wells selects the documented wells.

Each function takes symbolic ints / strs, applies the REAL Plate.__getitem__ (pyplate.slicer.Slicer) and compares the
selected well names, in order, with a short independent reference model.  `post: _` must hold for every input.
"""
from typing import List, Optional, Tuple

import pyplate.pyplate as pp

# ---- plates (built once, concretely) -------------------------------------------------------------------------------
_SPECS = [
    (1, 1), (1, 4), (3, 1), (3, 4), (28, 1),
    (['i', 'ii', 'iii'], ['a', 'b']),
    (['3', '1', '2'], 3),
    ([' a', 'b ', 'a'], [' 1', '1 ', '1']),        # labels that differ only in surrounding whitespace
]
PLATES = [pp.Plate(f"p{k}", '1 mL', rows=r, columns=c) for k, (r, c) in enumerate(_SPECS)]
N_PLATES = len(PLATES)
# history: for the custom-labelled plates, a second plate of the same shape whose labels are the same strings in another
# order.  Every selector is first resolved on that twin (result ignored), then on the plate under test: what a label
# means must depend on the plate it is applied to, not on what the process has resolved before.
_TWIN_SPECS = {5: (['iii', 'i', 'ii'], ['b', 'a']), 6: (['2', '3', '1'], 3), 7: (['a', ' a', 'b '], ['1', ' 1', '1 '])}
TWINS = {k: pp.Plate(f"p{k}", '1 mL', rows=r, columns=c) for k, (r, c) in _TWIN_SPECS.items()}


def _row_labels(k: int) -> List[str]:
    r = _SPECS[k][0]
    if isinstance(r, list):
        return list(r)
    out = []
    for n in range(1, r + 1):          # A..Z, AA, AB, ...  (bijective base 26)
        s = ''
        while n > 0:
            n, rem = divmod(n - 1, 26)
            s = chr(ord('A') + rem) + s
        out.append(s)
    return out


def _col_labels(k: int) -> List[str]:
    c = _SPECS[k][1]
    return list(c) if isinstance(c, list) else [str(i) for i in range(1, c + 1)]


REJECT = 'reject'


# ---- reference model -------------------------------------------------------------------------------------------------
def _ref_index(x, labels):
    """0-based position of an int index (1-based) or a label; REJECT if outside"""
    if isinstance(x, bool):
        x = int(x)
    if isinstance(x, int):
        return x - 1 if 1 <= x <= len(labels) else REJECT
    if isinstance(x, str):
        for i, lab in enumerate(labels):
            if lab == x:
                return i
        return REJECT
    return REJECT


def _ref_range(start, stop, step, labels):
    """positions selected by start:stop:step (both ends inclusive, 1-based / labels, None = edge); REJECT if malformed"""
    n = len(labels)
    lo = 0 if start is None else _ref_index(start, labels)
    hi = n - 1 if stop is None else _ref_index(stop, labels)
    if lo == REJECT or hi == REJECT:
        return REJECT
    if step is None:
        k = 1
    elif isinstance(step, int) and step >= 1:
        k = step
    else:
        return REJECT
    out = []
    i = lo
    while i <= hi:
        out.append(i)
        i += k
    return out


def _names(k, cells):
    rows, cols = _row_labels(k), _col_labels(k)
    return [f"well {rows[r]},{cols[c]}" for (r, c) in cells]


def _grid(rs, cs):
    return [(r, c) for r in rs for c in cs]


def _got(k, selector):
    """well names selected by the real code, or REJECT if it raised"""
    if k in TWINS:
        try:
            TWINS[k][selector].get()
        except Exception:
            pass
    try:
        sl = PLATES[k][selector]
        arr = sl.get()
        return [w.name for w in arr.flatten()]
    except Exception:       # CrossHair steers with BaseExceptions: only real errors are caught
        return REJECT


def _agree(k, selector, want_cells):
    got = _got(k, selector)
    if want_cells == REJECT:
        return got == REJECT
    return got != REJECT and got == _names(k, want_cells)


# ---- conditions --------------------------------------------------------------------------------------------------------
def c_row_int(k: int, i: int) -> bool:
    """
    pre: 0 <= k < N_PLATES
    post: _
    """
    r = _ref_index(i, _row_labels(k))
    want = REJECT if r == REJECT else _grid([r], range(len(_col_labels(k))))
    return _agree(k, i, want)


def c_well_ints(k: int, i: int, j: int) -> bool:
    """
    pre: 0 <= k < N_PLATES
    post: _
    """
    r, c = _ref_index(i, _row_labels(k)), _ref_index(j, _col_labels(k))
    want = REJECT if REJECT in (r, c) else [(r, c)]
    return _agree(k, (i, j), want)


def c_row_slice(k: int, a: Optional[int], b: Optional[int], s: Optional[int]) -> bool:
    """
    pre: 0 <= k < N_PLATES
    pre: s is None or s <= 8
    post: _
    """
    rs = _ref_range(a, b, s, _row_labels(k))
    want = REJECT if rs == REJECT else _grid(rs, range(len(_col_labels(k))))
    return _agree(k, slice(a, b, s), want)


def c_two_slices(k: int, a: Optional[int], b: Optional[int], c: Optional[int], d: Optional[int]) -> bool:
    """
    pre: 0 <= k < N_PLATES
    post: _
    """
    rs, cs = _ref_range(a, b, None, _row_labels(k)), _ref_range(c, d, None, _col_labels(k))
    want = REJECT if REJECT in (rs, cs) else _grid(rs, cs)
    return _agree(k, (slice(a, b), slice(c, d)), want)


def c_stepped_cols(k: int, c: Optional[int], d: Optional[int], s: Optional[int], i: int) -> bool:
    """
    pre: 0 <= k < N_PLATES
    pre: s is None or s <= 8
    post: _
    """
    r, cs = _ref_index(i, _row_labels(k)), _ref_range(c, d, s, _col_labels(k))
    want = REJECT if REJECT in (r, cs) else _grid([r], cs)
    return _agree(k, (i, slice(c, d, s)), want)


def c_slice_and_col(k: int, a: Optional[int], b: Optional[int], s: Optional[int], j: int) -> bool:
    """
    pre: 0 <= k < N_PLATES
    pre: s is None or s <= 8
    post: _
    """
    rs, c = _ref_range(a, b, s, _row_labels(k)), _ref_index(j, _col_labels(k))
    want = REJECT if REJECT in (rs, c) else _grid(rs, [c])
    return _agree(k, (slice(a, b, s), j), want)


def c_list_of_tuples(k: int, i1: int, j1: int, i2: int, j2: int) -> bool:
    """
    pre: 0 <= k < N_PLATES
    post: _
    """
    cells = []
    for (i, j) in ((i1, j1), (i2, j2)):
        r, c = _ref_index(i, _row_labels(k)), _ref_index(j, _col_labels(k))
        if REJECT in (r, c):
            return _agree(k, [(i1, j1), (i2, j2)], REJECT)
        cells.append((r, c))
    return _agree(k, [(i1, j1), (i2, j2)], cells)


def c_label(k: int, s: str) -> bool:
    """
    pre: 0 <= k < N_PLATES
    pre: len(s) <= 4
    post: _
    """
    rows, cols = _row_labels(k), _col_labels(k)
    if ':' in s:
        parts = s.split(':')
        if len(parts) != 2:
            want = REJECT
        else:
            r, c = _ref_index(parts[0], rows), _ref_index(parts[1], cols)
            want = REJECT if REJECT in (r, c) else [(r, c)]
    else:
        r = _ref_index(s, rows)
        want = REJECT if r == REJECT else _grid([r], range(len(cols)))
    return _agree(k, s, want)


def c_label_tuple(k: int, s: str, t: str) -> bool:
    """
    pre: 0 <= k < N_PLATES
    pre: len(s) <= 3 and len(t) <= 3
    post: _
    """
    r, c = _ref_index(s, _row_labels(k)), _ref_index(t, _col_labels(k))
    want = REJECT if REJECT in (r, c) else [(r, c)]
    return _agree(k, (s, t), want)


def c_label_int_mix(k: int, s: str, j: int) -> bool:
    """
    pre: 0 <= k < N_PLATES
    pre: len(s) <= 3
    post: _
    """
    r, c = _ref_index(s, _row_labels(k)), _ref_index(j, _col_labels(k))
    want = REJECT if REJECT in (r, c) else [(r, c)]
    ok1 = _agree(k, (s, j), want)
    # labels and integers are interchangeable: the same well through its integer row index
    if want != REJECT:
        return ok1 and _agree(k, (r + 1, j), want)
    return ok1


def c_label_slice(k: int, s: Optional[str], t: Optional[str], step: Optional[int]) -> bool:
    """
    pre: 0 <= k < N_PLATES
    pre: step is None or step <= 8
    pre: (s is None or len(s) <= 3) and (t is None or len(t) <= 3)
    post: _
    """
    rs = _ref_range(s, t, step, _row_labels(k))
    want = REJECT if rs == REJECT else _grid(rs, range(len(_col_labels(k))))
    return _agree(k, slice(s, t, step), want)


def c_list_of_strings(k: int, s: str, t: str) -> bool:
    """
    pre: 0 <= k < N_PLATES
    pre: len(s) <= 4 and len(t) <= 4
    post: _
    """
    rows, cols = _row_labels(k), _col_labels(k)
    cells = []
    for x in (s, t):
        parts = x.split(':')
        if ':' not in x or len(parts) != 2:
            return _agree(k, [s, t], REJECT)
        r, c = _ref_index(parts[0], rows), _ref_index(parts[1], cols)
        if REJECT in (r, c):
            return _agree(k, [s, t], REJECT)
        cells.append((r, c))
    return _agree(k, [s, t], cells)


def c_huge_step(k: int, a: Optional[int], b: Optional[int]) -> bool:
    """
    pre: 0 <= k < N_PLATES
    post: _
    """
    # steps beyond the bound of the other conditions: every step larger than the plate selects the first row only
    for s in (9, 29, 10**6, 2**70):
        rs = _ref_range(a, b, s, _row_labels(k))
        want = REJECT if rs == REJECT else _grid(rs, range(len(_col_labels(k))))
        if not _agree(k, slice(a, b, s), want):
            return False
    return True


_PARENTS = [(slice(None), slice(None)), (slice(1, None), slice(None)), (slice(None), slice(None, None, 2)),
            (slice(None, None, 2), slice(1, None))]


def c_sub_slice(k: int, pi: int, a: Optional[int], b: Optional[int], c: Optional[int], d: Optional[int]) -> bool:
    """
    pre: 0 <= k < N_PLATES
    pre: 0 <= pi < 4
    pre: (a is None or 0 <= a <= 30) and (b is None or 0 <= b <= 30) and (c is None or 0 <= c <= 30) and (d is None or 0 <= d <= 30)
    post: _
    """
    # a slice of a slice: 0-based positions relative to the parent selection, Python slicing semantics
    psel = _PARENTS[pi]
    prs = _ref_range(psel[0].start, psel[0].stop, psel[0].step, _row_labels(k))
    pcs = _ref_range(psel[1].start, psel[1].stop, psel[1].step, _col_labels(k))
    want = _names(k, _grid(prs[a:b], pcs[c:d]))
    try:
        parent = PLATES[k][psel]
        n_parent = parent.size                 # reading the parent's size first must not matter
        sub = parent[a:b, c:d]
        got = [w.name for w in sub.get().flatten()]
        return got == want and sub.size == len(want) and n_parent == len(prs) * len(pcs)
    except Exception:
        return False


def c_malformed(k: int, i: int, j: int, m: int) -> bool:
    """
    pre: 0 <= k < N_PLATES
    post: _
    """
    bad = [(i,), (i, j, m), 1.5, None, [[(i, j)]], [i], (i, 1.5), (None, j), {i: j}]
    return all(_got(k, b) == REJECT for b in bad)
