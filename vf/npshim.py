"""Object-dtype stand-in for the `numpy`/`np` names inside pyplate.pyplate (symbolic mode only).

Everything not listed here is forwarded to the real numpy.  `linalg.solve` is replaced by its
exact contract (singular -> LinAlgError, otherwise the unique solution by Cramer's rule in the
fraction field); LAPACK's floating-point error is outside every claim.
"""
import numpy as _np

from .symx import SymFloat, lift, decide, Unsupported


class SymArray(_np.ndarray):
    """object ndarray whose .round()/.sum() go through Python's round()/+ (so the proxies see them).
    Like numpy.ndarray it has a .round method and *no* __round__."""

    def round(self, decimals=0, out=None):
        res = _np.empty(self.shape, dtype=object)
        for idx in _np.ndindex(self.shape):
            res[idx] = round(self[idx], decimals)
        return res.view(SymArray)

    def sum(self, *a, **k):
        total = 0
        for idx in _np.ndindex(self.shape):
            total = total + self[idx]
        return total

    # element-wise Python arithmetic (numpy's own operators go through ufuncs, which the proxies refuse)
    def _ew(self, other, fn):
        res = _np.empty(self.shape, dtype=object)
        if isinstance(other, _np.ndarray):
            if other.shape != self.shape:
                raise Unsupported("broadcasting between arrays of different shapes")
            for idx in _np.ndindex(self.shape):
                res[idx] = fn(self[idx], other[idx])
        else:
            for idx in _np.ndindex(self.shape):
                res[idx] = fn(self[idx], other)
        return res.view(SymArray)

    def __add__(self, o):
        return self._ew(o, lambda a, b: a + b)

    def __radd__(self, o):
        return self._ew(o, lambda a, b: b + a)

    def __iadd__(self, o):
        r = self._ew(o, lambda a, b: a + b)
        self[...] = r
        return self

    def __sub__(self, o):
        return self._ew(o, lambda a, b: a - b)

    def __rsub__(self, o):
        return self._ew(o, lambda a, b: b - a)

    def __isub__(self, o):
        r = self._ew(o, lambda a, b: a - b)
        self[...] = r
        return self

    def __mul__(self, o):
        return self._ew(o, lambda a, b: a * b)

    def __rmul__(self, o):
        return self._ew(o, lambda a, b: b * a)

    def __truediv__(self, o):
        return self._ew(o, lambda a, b: a / b)

    def __rtruediv__(self, o):
        return self._ew(o, lambda a, b: b / a)

    def __imul__(self, o):
        r = self._ew(o, lambda a, b: a * b)
        self[...] = r
        return self

    def __itruediv__(self, o):
        r = self._ew(o, lambda a, b: a / b)
        self[...] = r
        return self

    def __neg__(self):
        return self._ew(0, lambda a, b: -a)

    def __abs__(self):
        return self._ew(0, lambda a, b: abs(a))


def _det(M):
    n = len(M)
    if n == 1:
        return M[0][0]
    if n == 2:
        return M[0][0] * M[1][1] - M[0][1] * M[1][0]
    s = None
    for j in range(n):
        if M[0][j] == 0:
            continue
        minor = [row[:j] + row[j + 1:] for row in M[1:]]
        t = M[0][j] * _det(minor)
        if j % 2:
            t = -t
        s = t if s is None else s + t
    return s if s is not None else M[0][0] * 0


class _Linalg:
    LinAlgError = _np.linalg.LinAlgError

    @staticmethod
    def solve(a, b):
        n = len(b)
        if n > 5:
            raise Unsupported("linalg.solve with n > 5")
        if _np.shape(a) != (n, n):
            raise _np.linalg.LinAlgError("Last 2 dimensions of the array must be square")
        A = [[lift(a[i][j]) for j in range(n)] for i in range(n)]
        B = [lift(b[i]) for i in range(n)]
        d = _det(A)
        if decide(d, '=='):
            raise _np.linalg.LinAlgError("Singular matrix")
        out = _np.empty(n, dtype=object)
        for k in range(n):  # Cramer
            Ak = [[B[i] if j == k else A[i][j] for j in range(n)] for i in range(n)]
            out[k] = SymFloat(_det(Ak) / d)
        return out


def _numeric_nest(v):
    if isinstance(v, (list, tuple)):
        return len(v) > 0 and all(_numeric_nest(e) for e in v)
    return isinstance(v, (int, float)) and not isinstance(v, bool)


class _Vectorize:
    def __init__(self, pyfunc, otypes=None, cache=False, **kw):
        self.pyfunc = pyfunc
        self.otypes = otypes

    def __call__(self, arr, *rest):
        if rest:
            raise Unsupported("vectorize with several arguments")
        arr = _np.asarray(arr, dtype=object) if not isinstance(arr, _np.ndarray) else arr
        out = _np.empty(arr.shape, dtype=object)
        for idx in _np.ndindex(arr.shape):
            out[idx] = self.pyfunc(arr[idx])
        return out.view(SymArray)


class Shim:
    linalg = _Linalg
    ndarray = _np.ndarray

    def __getattr__(self, k):
        return getattr(_np, k)

    @staticmethod
    def zeros(shape, dtype=float):
        a = _np.empty(shape, dtype=object)
        a.fill(0.0)
        return a.view(SymArray)

    @staticmethod
    def identity(n, dtype=None):
        a = _np.empty((n, n), dtype=object)
        a.fill(0.0)
        for i in range(n):
            a[i, i] = 1.0
        return a.view(SymArray)

    @staticmethod
    def array(x, *a, **k):
        if isinstance(x, (list, tuple)) and _numeric_nest(x):
            return _np.array(x, dtype=object).view(SymArray)
        return _np.array(x, *a, **k)

    vectorize = _Vectorize
