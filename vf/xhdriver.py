"""Driver for the CrossHair-based checks (C13, C14 grammar): generates per-instance condition modules from a template,
runs `crosshair check` on every condition in parallel, replays counterexamples natively, writes evidence."""
from __future__ import annotations

import concurrent.futures as cf
import hashlib
import importlib.util
import json
import os
import re
import subprocess
import sys
import time

VERIF = os.path.dirname(os.path.dirname(os.path.abspath(__file__)))
REPO = os.environ.get('VERIF_REPO', '/repo')
GEN = os.path.join(VERIF, '.xh_gen')


def _env():
    e = dict(os.environ)
    e['PYPLATE_CONFIG'] = os.path.join(REPO, 'pyplate')
    e['PYTHONPATH'] = REPO + os.pathsep + VERIF
    e['PYTHONHASHSEED'] = '0'
    e['PYTHONDONTWRITEBYTECODE'] = '1'
    return e


def generate(template_path, name, substitutions):
    os.makedirs(GEN, exist_ok=True)
    with open(template_path) as f:
        text = f.read()
    for a, b in substitutions:
        text = text.replace(a, b)
    path = os.path.join(GEN, name + '.py')
    tmp = path + f".{os.getpid()}"
    with open(tmp, 'w') as f:
        f.write(text)
    os.replace(tmp, path)
    return path


def functions_in(path, prefix='c_'):
    out = []
    with open(path) as f:
        for n, line in enumerate(f, 1):
            m = re.match(r'^def (' + prefix + r'\w+)\(', line)
            if m:
                out.append((m.group(1), n))
    return out


def run_condition(job):
    path, fn, line, timeout = job
    t0 = time.time()
    cmd = [os.path.join(VERIF, '.venv', 'bin', 'crosshair'), 'check',
           '--extra_plugin', os.path.join(VERIF, 'vf', 'xh', 'plugin.py'), '--report_all',
           '--per_condition_timeout', str(timeout), '--per_path_timeout', str(max(5, timeout // 4)),
           f"{path}:{line + 1}"]
    try:
        p = subprocess.run(cmd, capture_output=True, text=True, env=_env(), cwd=VERIF, timeout=timeout * 3 + 60)
        out = (p.stdout + p.stderr).strip()
    except subprocess.TimeoutExpired as e:
        out = 'TIMEOUT ' + str(e)
    verdict, detail = 'unknown', out[-400:]
    if 'Confirmed over all paths' in out:
        verdict = 'confirmed'
    elif re.search(r': error: ', out):
        verdict = 'counterexample'
        m = re.search(r': error: (.*)', out)
        detail = m.group(1) if m else out[-400:]
    elif 'Not confirmed' in out:
        verdict = 'not-confirmed'
    elif 'Unable to meet precondition' in out:
        verdict = 'unable-to-meet-precondition'
    return {'module': os.path.basename(path), 'path': path, 'fn': fn, 'verdict': verdict, 'detail': detail,
            'wall_s': round(time.time() - t0, 1)}


def replay_call(path, call_expr):
    """evaluate `call_expr` (e.g. "c_row_slice(3, None, None, -1)") natively in the generated module.
    Returns ('false' | 'true' | 'raised:<Type>: msg')"""
    code = ("import sys, importlib.util\n"
            f"spec = importlib.util.spec_from_file_location('xh_replay', {path!r})\n"
            "m = importlib.util.module_from_spec(spec); spec.loader.exec_module(m)\n"
            "try:\n"
            f"    r = eval({call_expr!r}, vars(m))\n"
            "    print('RESULT', 'true' if r else 'false')\n"
            "except Exception as e:\n"
            "    print('RESULT', 'raised:' + type(e).__name__ + ': ' + str(e)[:200])\n")
    p = subprocess.run([os.path.join(VERIF, '.venv', 'bin', 'python'), '-B', '-c', code], capture_output=True, text=True,
                       env=_env(), cwd=VERIF, timeout=120)
    m = re.search(r'RESULT (.*)', p.stdout)
    return m.group(1) if m else 'raised:harness: ' + (p.stderr[-300:] or p.stdout[-300:])


def run_all(prop, jobs, jobs_parallel, meta, tier, seed, known=None, write=True):
    """jobs: list of (path, fn, line, timeout).  Returns exit code; prints VIOLATION lines; writes evidence."""
    t0 = time.time()
    results = []
    with cf.ThreadPoolExecutor(max_workers=jobs_parallel) as ex:
        for r in ex.map(run_condition, jobs):
            results.append(r)
    violations, harness_errors, spurious = [], [], []
    os.makedirs(os.path.join(VERIF, 'replays'), exist_ok=True)

    def _replay(r):
        m = re.search(r'when calling (.*?)(?: \(which |$)', r['detail'])
        call = m.group(1).strip() if m else None
        outcome = replay_call(r['path'], call) if call else 'raised:harness: no call expression in ' + r['detail'][:200]
        r['replay'] = outcome
        r['call'] = call
        return outcome

    for i, r in enumerate(results):
        if r['verdict'] != 'counterexample':
            continue
        outcome = _replay(r)
        if outcome == 'true':
            # The concrete call CrossHair names returns True on the real code in a fresh interpreter: the counterexample is an
            # artefact of the engine (state shared between the paths it explores in one process), not a violation.  The
            # condition is explored once more; a counterexample that replays is a violation, anything else leaves the
            # condition where a budget-limited search leaves it: not confirmed.
            spurious.append({'condition': f"{r['module']}:{r['fn']}", 'call': r['call'], 'detail': r['detail'][:300]})
            job = next(j for j in jobs if j[0] == r['path'] and j[1] == r['fn'])
            r2 = run_condition((job[0], job[1], job[2], max(10, int(job[3] * 0.6))))
            if r2['verdict'] == 'counterexample':
                outcome = _replay(r2)
                if outcome == 'true':
                    spurious.append({'condition': f"{r2['module']}:{r2['fn']}", 'call': r2['call'], 'detail': r2['detail'][:300]})
                    r2['verdict'] = 'not-confirmed'
            if r2['verdict'] == 'confirmed':
                r2['verdict'] = 'not-confirmed'      # one of two explorations produced an artefact: no claim
            r2['wall_s'] = round(r2['wall_s'] + r['wall_s'], 1)
            results[i] = r = r2
            if r['verdict'] != 'counterexample':
                continue
        call = r.get('call')
        if outcome == 'false':
            hname = hashlib.sha1((r['module'] + (call or '')).encode()).hexdigest()[:12]
            rp = os.path.join(VERIF, 'replays', f"{prop}-{hname}.json")
            with open(rp, 'w') as f:
                json.dump({'property': prop, 'engine': 'crosshair', 'module': r['module'], 'generator': meta.get('generator'),
                           'fn': r['fn'], 'call': call, 'detail': r['detail']}, f, indent=1)
            r['replay_path'] = rp
            violations.append(r)
        else:
            harness_errors.append(r)       # the replay itself failed
    known = known or []
    new_violations = []
    known_hits = {}
    for v in violations:
        k = next((k for k in known if k.get('status') == 'open' and k['property'] == prop and
                  re.fullmatch(k.get('fn_regex', '.*'), v['fn']) and re.search(k.get('call_regex', '.*'), v['call'] or '')), None)
        if k:
            known_hits.setdefault(k['id'], {'entry': k, 'hits': []})['hits'].append(v)
        else:
            new_violations.append(v)
    for kid, kh in known_hits.items():
        print(f"KNOWN-FINDING: property={prop} {kid}: {kh['entry']['what']} (reproduced: {kh['hits'][0]['call']})")
    for v in new_violations:
        print(f"VIOLATION property={prop} replay={v['replay_path']}")
        print(f"  condition={v['module']}:{v['fn']} counterexample: {v['call']}")
    for e in harness_errors:
        print("INCONCLUSIVE " + json.dumps({'condition': f"{e['module']}:{e['fn']}", 'why': 'the native replay of a CrossHair '
                                            'counterexample failed', 'call': e.get('call'), 'replay': e.get('replay'),
                                            'detail': e['detail'][:300]}))
    for e in spurious:
        print("NOTE spurious CrossHair counterexample (returns True on the real code in a fresh interpreter): " + json.dumps(e))
    counts = {}
    for r in results:
        counts[r['verdict']] = counts.get(r['verdict'], 0) + 1
    wall = time.time() - t0
    print(f"{prop} tier={tier} engine=crosshair conditions={len(results)} " +
          ' '.join(f"{k}={v}" for k, v in sorted(counts.items())) +
          f" violations={len(new_violations)} known={len(known_hits)} wall={wall:.1f}s")
    ev = {
        'property_id': prop, 'tier': tier, 'seed': seed, 'level': 'other',
        'coverage': {
            'explanation': meta['explanation'],
            'engine': 'CrossHair ' + _xh_version() + ' (symbolic execution of the real Python code with z3; symbolic int/str)',
            'conditions': len(results),
            'verdicts': counts,
            'confirmed_over_all_paths': [f"{r['module']}:{r['fn']}" for r in results if r['verdict'] == 'confirmed'],
            'bug_hunting_only': [f"{r['module']}:{r['fn']}" for r in results if r['verdict'] in ('not-confirmed', 'unknown',
                                                                                                'unable-to-meet-precondition')],
            'per_condition_timeout_s': jobs[0][3] if jobs else None,
            'evaluations': len(results),
            'distinct_nontrivial': len(results),
            'rule': 'one evaluation = one CrossHair condition (function x instance), each exploring all symbolic inputs '
                    'within its per-condition time budget',
            'samples': [{'condition': f"{r['module']}:{r['fn']}", 'verdict': r['verdict'], 'wall_s': r['wall_s']}
                        for r in results[:12]],
            'functions_encoded': meta.get('functions', []),
            'bounds': meta.get('bounds', ''),
            'outside_bounds': meta.get('outside', ''),
            'known_findings_reproduced': sorted(known_hits),
            'spurious_counterexamples_not_reproduced_natively': spurious,
            'solver_seconds': round(sum(r['wall_s'] for r in results), 1),
            'exhaustive': False,
        },
        'assumptions': meta.get('assumptions', []),
        'wall_s': round(wall, 2),
        'violations': len(new_violations),
    }
    code = 1 if new_violations else (2 if harness_errors else 0)
    if not write:
        return code, ev
    os.makedirs(os.path.join(VERIF, 'evidence'), exist_ok=True)
    with open(os.path.join(VERIF, 'evidence', f"{prop}.json"), 'w') as f:
        json.dump(ev, f, indent=1)
    return code


def _xh_version():
    try:
        import importlib.metadata as md
        return md.version('crosshair-tool')
    except Exception:  # noqa: BLE001
        return '?'
