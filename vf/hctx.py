"""Harness-facing context: the same harness body runs symbolically (proxies, solver) and natively
(plain floats from a witness, unshimmed PyPlate).  Conditions are built with the H.* helpers and
are formulas over polynomial sign conditions in symbolic mode, tolerant float comparisons natively.
"""
from __future__ import annotations

from fractions import Fraction

import z3

from . import symx
from .symx import SymFloat, kconst, lift, is_ground, ground_value

FABS = 1e-8      # native float tolerance (absolute, in the unit of the compared values)
FREL = 1e-8      # native float tolerance (relative to the larger operand)


def _is_zero(x):
    return (isinstance(x, (int, Fraction)) and x == 0) or (type(x) is float and x == 0.0)


class NativeVacuous(Exception):
    """The witness does not satisfy a harness assumption when evaluated in floats."""


class Cond:
    """sym: .form = formula tree; native: .len / .strict (truth with tolerance for / against)."""
    __slots__ = ('form', 'len', 'strict', 'text')

    def __init__(self, form=None, len_=None, strict=None, text=''):
        self.form, self.len, self.strict, self.text = form, len_, strict, text

    def __and__(self, o):
        if self.form is not None:
            return Cond(('and', [self.form, o.form]), text=f"({self.text} and {o.text})")
        return Cond(None, self.len and o.len, self.strict and o.strict, f"({self.text} and {o.text})")

    def __or__(self, o):
        if self.form is not None:
            return Cond(('or', [self.form, o.form]), text=f"({self.text} or {o.text})")
        return Cond(None, self.len or o.len, self.strict or o.strict, f"({self.text} or {o.text})")

    def __invert__(self):
        if self.form is not None:
            return Cond(('not', self.form), text=f"not {self.text}")
        return Cond(None, not self.strict, not self.len, f"not {self.text}")

    def __bool__(self):
        raise TypeError("Cond has no truth value; use H.require / H.assume / H.decide")


# ---- formula utilities (symbolic mode) --------------------------------------------------------

def form_z3(ctx: symx.Ctx, form):
    k = form[0]
    if k == 'sign':
        return ctx.sign_cond(form[1], form[2])
    if k == 'const':
        return z3.BoolVal(form[1])
    if k == 'and':
        return z3.And([form_z3(ctx, x) for x in form[1]])
    if k == 'or':
        return z3.Or([form_z3(ctx, x) for x in form[1]])
    if k == 'not':
        return z3.Not(form_z3(ctx, form[1]))
    raise ValueError(k)


def form_neg_robust(ctx: symx.Ctx, form, mu: Fraction, negate=True):
    """z3 formula for (not form) with every violated primitive required to be violated by margin mu."""
    k = form[0]
    if k == 'const':
        return z3.BoolVal(form[1] != negate)
    if k == 'not':
        return form_neg_robust(ctx, form[1], mu, not negate)
    if k in ('and', 'or'):
        parts = [form_neg_robust(ctx, x, mu, negate) for x in form[1]]
        if (k == 'and') == negate:
            return z3.Or(parts)
        return z3.And(parts)
    f, op = form[1], form[2]
    if negate:
        op = symx._NEG[op]
    # now want (f op 0) robustly
    m = kconst(mu)
    if op == '>' or op == '>=':
        return ctx.sign_cond(f - m, '>=')
    if op == '<' or op == '<=':
        return ctx.sign_cond(f + m, '<=')
    if op == '!=':
        return z3.Or(ctx.sign_cond(f - m, '>='), ctx.sign_cond(f + m, '<='))
    return ctx.sign_cond(f, '==')


def form_eval(ctx: symx.Ctx, form, model=None):
    """Exact truth of form at the model point; None if undetermined (pole / no model)."""
    k = form[0]
    if k == 'const':
        return form[1]
    if k == 'sign':
        v = ctx.eval_model(form[1], model)
        if v is None:
            return None
        return symx._cmp0(v, form[2])
    if k == 'not':
        v = form_eval(ctx, form[1], model)
        return None if v is None else (not v)
    vals = [form_eval(ctx, x, model) for x in form[1]]
    if k == 'and':
        if any(v is False for v in vals):
            return False
        return None if any(v is None for v in vals) else True
    if any(v is True for v in vals):
        return True
    return None if any(v is None for v in vals) else False


def form_ground(form):
    """True/False if the formula contains no variables, else None."""
    k = form[0]
    if k == 'const':
        return form[1]
    if k == 'sign':
        if is_ground(form[1]):
            return symx._cmp0(ground_value(form[1]), form[2])
        return None
    if k == 'not':
        v = form_ground(form[1])
        return None if v is None else (not v)
    vals = [form_ground(x) for x in form[1]]
    if k == 'and':
        if any(v is False for v in vals):
            return False
        return None if any(v is None for v in vals) else True
    if any(v is True for v in vals):
        return True
    return None if any(v is None for v in vals) else False


def form_text(form, names, depth=0):
    k = form[0]
    if k == 'const':
        return str(form[1])
    if k == 'sign':
        s = str(form[1].as_expr()) if hasattr(form[1], 'as_expr') else str(form[1])
        for i in range(len(names) - 1, -1, -1):
            s = s.replace(f"v{i}", names[i])
        if len(s) > 300:
            s = s[:300] + '…'
        return f"{s} {form[2]} 0"
    if k == 'not':
        return f"not({form_text(form[1], names)})"
    return '(' + f" {k} ".join(form_text(x, names) for x in form[1]) + ')'


class Obligation:
    __slots__ = ('label', 'cond', 'region', 'detail', 'companion')

    def __init__(self, label, cond, region, detail, companion=True):
        self.label, self.cond, self.region, self.detail = label, cond, region, detail
        # companion=False: in the native companion run the obligation only serves to confirm a counterexample found
        # symbolically (used where float rounding may legitimately flip a decision exactly on a boundary witness)
        self.companion = companion


class H:
    """Harness context."""

    def __init__(self, env, params, *, sym_ctx: symx.Ctx | None = None, witness: dict | None = None):
        self.env = env
        self.p = params
        # absolute native tolerance; a cell that compares small quantities in base units (mol, L) and states its rounding
        # slack explicitly can ask for a finer one
        self.fabs = float(params.get('fabs', FABS)) if isinstance(params, dict) else FABS
        self.sym = sym_ctx
        self.mode = 'sym' if sym_ctx is not None else 'native'
        self.witness = witness or {}
        self.obligations: list[Obligation] = []
        self.observations: list[tuple[str, object]] = []
        self.notes: dict = {}
        self.outcome = 'ok'
        self.used_inputs: dict[str, object] = {}

    # ---- inputs -----------------------------------------------------------------------------
    def real(self, name, lo=None, hi=None, lo_strict=False, hi_strict=False, hint=None):
        pin = (self.p or {}).get('pin') if isinstance(self.p, dict) else None
        if pin and name in pin:
            # a pinned input: an exact decimal constant in both modes (regression witnesses of repaired defects whose
            # manifestation depends on the floating-point image of particular values)
            return self.const(pin[name])
        if self.sym is not None:
            g = self.sym.new_gen(name, lo, hi, lo_strict, hi_strict, hint)
            self.sym.inputs[name] = self.sym.ngens - 1
            return SymFloat(g)
        if name not in self.witness:
            raise NativeVacuous(f"witness has no value for {name}")
        v = self.witness[name]
        fv = v.numerator / v.denominator if isinstance(v, Fraction) else float(v)
        self.used_inputs[name] = fv
        return fv

    def const(self, x):
        """An exact decimal constant (e.g. a molecular weight): ground SymFloat / float."""
        fr = symx.frac_const(x)
        if self.sym is not None:
            return SymFloat(kconst(fr))
        return fr.numerator / fr.denominator

    # ---- conditions -------------------------------------------------------------------------
    def _prim(self, a, b, op, slack, text):
        """(a - b - slack) op 0"""
        if self.sym is not None:
            fa, fb = lift(a), lift(b)
            if fa is None or fb is None:
                raise TypeError(f"non-numeric operand in condition {text}: {type(a)}, {type(b)}")
            f = fa - fb
            if not _is_zero(slack):
                f = f - lift(slack)
            return Cond(('sign', f, op), text=text)
        a = float(a)
        b = float(b)
        d = a - b - float(slack)
        tol = self.fabs + FREL * max(abs(a), abs(b))
        if op == '<=' or op == '<':
            return Cond(None, d <= tol, d <= -tol, text)
        if op == '>=' or op == '>':
            return Cond(None, d >= -tol, d >= tol, text)
        if op == '==':
            return Cond(None, abs(d) <= tol, False, text)
        if op == '!=':
            return Cond(None, True, abs(d) > tol, text)
        raise ValueError(op)

    def le(self, a, b, slack=0, text=''):
        return self._prim(a, b, '<=', slack, text or 'le')

    def lt(self, a, b, slack=0, text=''):
        return self._prim(a, b, '<', slack, text or 'lt')

    def ge(self, a, b, slack=0, text=''):
        return self._prim(a, b, '>=', 0 if _is_zero(slack) else -slack, text or 'ge')

    def gt(self, a, b, slack=0, text=''):
        return self._prim(a, b, '>', 0 if _is_zero(slack) else -slack, text or 'gt')

    def eq(self, a, b, slack=0, text=''):
        """|a - b| <= slack"""
        if _is_zero(slack):
            return self._prim(a, b, '==', 0, text or 'eq')
        return self._prim(a, b, '<=', slack, text or 'eq+') & self._prim(a, b, '>=', -slack, text or 'eq-')

    def ne(self, a, b, text=''):
        return self._prim(a, b, '!=', 0, text or 'ne')

    def true(self, b, text=''):
        b = bool(b)
        if self.sym is not None:
            return Cond(('const', b), text=text or str(b))
        return Cond(None, b, b, text or str(b))

    def all_of(self, conds, text=''):
        conds = list(conds)
        if not conds:
            return self.true(True)
        if self.sym is not None:
            return Cond(('and', [c.form for c in conds]), text=text)
        return Cond(None, all(c.len for c in conds), all(c.strict for c in conds), text)

    def any_of(self, conds, text=''):
        conds = list(conds)
        if not conds:
            return self.true(False)
        if self.sym is not None:
            return Cond(('or', [c.form for c in conds]), text=text)
        return Cond(None, any(c.len for c in conds), any(c.strict for c in conds), text)

    def implies(self, p, q):
        return (~p) | q

    # ---- probes ------------------------------------------------------------------------------
    def concolic(self):
        """context manager: inside it, decisions follow the current witness and are not explored (for probe
        operations whose own outcome does not matter, e.g. the aliasing probes of C04)"""
        h = self

        class _C:
            def __enter__(self_inner):
                if h.sym is not None:
                    self_inner.old = h.sym.concolic
                    h.sym.concolic = True

            def __exit__(self_inner, *a):
                if h.sym is not None:
                    h.sym.concolic = self_inner.old
                return False
        return _C()

    # ---- rounding slack ----------------------------------------------------------------------
    @property
    def ulp(self):
        return Fraction(1, 10 ** self.env.config.internal_precision)

    def rs(self, x):
        """Rounding slack: x where the library's internal rounding is in play (native floats, delta/int
        rounding models); 0 in the lite model, where internal roundings are the identity and obligations
        are exact."""
        if self.sym is not None and self.sym.round_mode in ('lite', 'ideal'):
            return 0
        return x

    # ---- using conditions -------------------------------------------------------------------
    def assume(self, cond: Cond):
        if self.sym is not None:
            form = cond.form
            if form[0] == 'sign':
                self.sym.assume(form[1], form[2])
                return
            g = form_ground(form)
            if g is not None:
                if not g:
                    raise symx.Abort("ground assumption false")
                return
            self.sym.solver.add(form_z3(self.sym, form))
            if self.sym.model is not None and self.sym.model_valid:
                if form_eval(self.sym, form) is not True:
                    self.sym.model_valid = False
            return
        if not cond.len:
            raise NativeVacuous(f"assumption false in floats: {cond.text}")

    def decide(self, cond: Cond) -> bool:
        """Fork on a harness-level condition (used to split obligations into regions)."""
        if self.sym is not None:
            form = cond.form
            if form[0] == 'sign':
                return self.sym.branch(form[1], form[2])
            if form[0] == 'const':
                return form[1]
            raise TypeError("decide() needs a primitive condition")
        return cond.len

    def require(self, label, cond: Cond, region='', detail='', companion=True):
        self.obligations.append(Obligation(label, cond, region, detail, companion))

    def fail(self, label, detail='', region=''):
        self.obligations.append(Obligation(label, self.true(False, detail), region, detail))

    def observe(self, label, value):
        self.observations.append((label, value))

    # ---- values -----------------------------------------------------------------------------
    def is_symbolic(self, x):
        return isinstance(x, SymFloat) and not is_ground(x.f)

    def value_at(self, x, model=None):
        """Numeric value (float) of x: itself natively, its term at the model symbolically."""
        if isinstance(x, SymFloat):
            v = self.sym.eval_model(x.f, model) if self.sym is not None else None
            return None if v is None else v.numerator / v.denominator
        if isinstance(x, (int, float)):
            return float(x)
        return None
