"""symx — path-exhaustive dynamic symbolic execution of the real PyPlate code.

A `SymFloat` is a subclass of `float` that carries a term of the fraction field
Q(v0..vN) (sympy `QQ.frac_field`, canonical numerator/denominator, automatic
cancellation).  The code under test runs unmodified under CPython; every
`bool()` of a symbolic comparison is a decision point.  Decisions are explored
depth first by re-execution with a recorded decision prefix.  Path conditions and
obligations are polynomial sign conditions decided by z3 (nonlinear real
arithmetic).

This module knows nothing about PyPlate.
"""
from __future__ import annotations

import re
import sys

import builtins
import time
from fractions import Fraction

import numpy as _np
import sympy as sp
import z3

# exact rational coefficients can have tens of thousands of digits (programs that dilute and then dissolve): no limit on
# int <-> str conversion (CPython's default of 4300 digits crashed one worker of the thorough C09 tier)
if hasattr(sys, 'set_int_max_str_digits'):
    sys.set_int_max_str_digits(0)
from sympy import QQ

_real_float = builtins.float
INF = _real_float('inf')

NGENS = 56
_syms = sp.symbols(f'v0:{NGENS}')
K = QQ.frac_field(*_syms)
GENS = K.gens
_POOLS = {NGENS: (K, GENS)}


def set_pool(n: int):
    """Select the size of the generator pool (a larger field makes every polynomial operation slower, so cells ask
    for it only when they need many output-rounding variables).  Terms never outlive a path, so switching between
    cells is safe."""
    global NGENS, K, GENS
    if n == NGENS:
        return
    if n not in _POOLS:
        k = QQ.frac_field(*sp.symbols(f'v0:{n}'))
        _POOLS[n] = (k, k.gens)
    NGENS = n
    K, GENS = _POOLS[n]


class Unsupported(BaseException):
    """The code under test used an operation the proxies do not model."""


class Abort(BaseException):
    """Path is infeasible / assumption unsatisfiable (vacuous)."""


class PathLimit(BaseException):
    pass


_FLIP = {'<': '>', '<=': '>=', '>': '<', '>=': '<=', '==': '==', '!=': '!='}
_NEG = {'<': '>=', '<=': '>', '>': '<=', '>=': '<', '==': '!=', '!=': '=='}
_SIGNS = {'<': {-1}, '<=': {-1, 0}, '>': {1}, '>=': {0, 1}, '==': {0}, '!=': {-1, 1}}
_Z3OPS = {'<': lambda a: a < 0, '<=': lambda a: a <= 0, '>': lambda a: a > 0, '>=': lambda a: a >= 0,
          '==': lambda a: a == 0, '!=': lambda a: a != 0}


def frac_const(x) -> Fraction:
    """Exact rational for a Python number; floats are read by their shortest decimal repr."""
    if isinstance(x, Fraction):
        return x
    if isinstance(x, bool):
        return Fraction(int(x))
    if isinstance(x, int):
        return Fraction(x)
    if isinstance(x, _real_float):
        if x != x or x in (INF, -INF):
            raise Unsupported(f"non-finite constant {x!r}")
        return Fraction(_real_float.__repr__(x))
    if isinstance(x, str):
        return Fraction(x)
    raise TypeError(type(x))


def kconst(x):
    fr = frac_const(x)
    return K(QQ(fr.numerator, fr.denominator))


def is_ground(f) -> bool:
    return f.numer.is_ground and f.denom.is_ground


def ground_value(f) -> Fraction:
    if f.numer == 0:
        return Fraction(0)
    n = f.numer.LC
    d = f.denom.LC
    return Fraction(int(n.numerator), int(n.denominator)) / Fraction(int(d.numerator), int(d.denominator))


def _qq_frac(c) -> Fraction:
    return Fraction(int(c.numerator), int(c.denominator))


def poly_eval(p, point) -> Fraction:
    """Evaluate PolyElement p at point (list of Fractions indexed by generator)."""
    total = Fraction(0)
    for monom, coeff in p.terms():
        t = _qq_frac(coeff)
        for i, e in enumerate(monom):
            if e:
                t *= point[i] ** e
        total += t
    return total


class Stats:
    def __init__(self):
        self.queries = 0
        self.sat = 0
        self.unsat = 0
        self.unknown = 0
        self.solver_s = 0.0
        self.ground_decisions = 0
        self.cached_decisions = 0
        self.model_decisions = 0
        self.forks = 0

    def merge(self, o):
        for k, v in o.__dict__.items():
            setattr(self, k, getattr(self, k) + v)

    def as_dict(self):
        d = dict(self.__dict__)
        d['solver_s'] = round(d['solver_s'], 3)
        return d


class Ctx:
    """One execution path."""
    cur: 'Ctx | None' = None

    def __init__(self, prefix=(), model=None, round_mode='lite', rlimit=40_000_000, timeout_ms=120_000,
                 lowering='cleared', seed=0, lite_digits=8, branch_timeout_ms=20_000):
        self.prefix = list(prefix)
        self.trace: list[bool] = []
        self.pending: list[tuple[list[bool], dict | None]] = []
        self.solver = z3.Solver()
        self.solver.set("timeout", timeout_ms)
        self.solver.set("rlimit", rlimit)
        # VERIF_SEED is deliberately NOT passed to z3: nlsat's behaviour on the nonlinear queries is seed-sensitive
        # (C05 went from 10 s to 13 min under random_seed=1 with identical verdicts); the seed only drives the sampling
        # of recipe programs in the thorough tiers, so verdicts and timings of the quick tier do not depend on it.
        self.ngens = 0
        self.names: list[str] = []
        self.zvars: list = []
        self.bounds: list[tuple] = []
        self.registry: dict[str, SymFloat] = {}
        self.model: list[Fraction] | None = list(model) if model is not None else None
        self.model_valid = model is not None
        self.round_mode = round_mode
        self.lite_digits = lite_digits
        self.lowering = lowering
        self.stats = Stats()
        self.signs: dict = {}       # term -> set of still-possible signs (decision cache)
        self.roundings = 0
        self.round_cache: dict = {}
        self.concolic = False
        self.branch_timeout_ms = branch_timeout_ms
        self.timeout_ms = timeout_ms
        self.eq_decisions = 0      # decisions/assumptions of the form f == 0 on this path (measure-zero paths)
        self.min_margin: Fraction | None = None
        self.inputs: dict[str, int] = {}   # user-named reals -> gen index
        self.unknown_feasibility = 0

    # ---- variables -------------------------------------------------------------------------
    def new_gen(self, name, lo=None, hi=None, lo_strict=False, hi_strict=False, hint=None):
        i = self.ngens
        if i >= NGENS:
            raise Unsupported("generator pool exhausted")
        self.ngens += 1
        zv = z3.Real(name)
        self.zvars.append(zv)
        self.names.append(name)
        lo_f = frac_const(lo) if lo is not None else None
        hi_f = frac_const(hi) if hi is not None else None
        self.bounds.append((lo_f, hi_f))
        if lo_f is not None:
            self.solver.add(zv > _zq(lo_f) if lo_strict else zv >= _zq(lo_f))
        if hi_f is not None:
            self.solver.add(zv < _zq(hi_f) if hi_strict else zv <= _zq(hi_f))
        # extend the model with some value inside the bounds
        if self.model is not None and len(self.model) <= i:
            if hint is not None:
                v = frac_const(hint)
            elif lo_f is not None and hi_f is not None:
                v = (lo_f + hi_f) / 2 if (lo_strict or hi_strict or lo_f != hi_f) else lo_f
                # prefer something closer to the low end on wide ranges (amounts span decades)
                if lo_f > 0 and hi_f / lo_f > 100:
                    v = lo_f * 7
                    if not v < hi_f:
                        v = (lo_f + hi_f) / 2
            elif lo_f is not None:
                v = lo_f + 1
            elif hi_f is not None:
                v = hi_f - 1
            else:
                v = Fraction(0)
            self.model.append(v)
        return GENS[i]

    # ---- lowering to z3 --------------------------------------------------------------------
    def poly_z3(self, p):
        terms = []
        for monom, coeff in p.terms():
            t = _zq(_qq_frac(coeff))
            factors = []
            for i, e in enumerate(monom):
                for _ in range(e):
                    factors.append(self.zvars[i])
            if factors:
                prod = factors[0]
                for fz in factors[1:]:
                    prod = prod * fz
                t = t * prod if _qq_frac(coeff) != 1 else prod
            terms.append(t)
        if not terms:
            return z3.RealVal(0)
        return z3.Sum(terms) if len(terms) > 1 else terms[0]

    def sign_cond(self, f, op):
        """z3 formula for (f op 0), f an element of K."""
        if is_ground(f):
            v = ground_value(f)
            return z3.BoolVal(_cmp0(v, op))
        N, D = f.numer, f.denom
        if D.is_ground:
            if _qq_frac(D.LC) < 0:
                op = _FLIP[op]
            return _Z3OPS[op](self.poly_z3(N))
        n = self.poly_z3(N)
        if op in ('==', '!='):
            return _Z3OPS[op](n)
        if self.lowering == 'quotient':
            return _Z3OPS[op](n / self.poly_z3(D))
        d = self.poly_z3(D)
        return z3.Or(z3.And(d > 0, _Z3OPS[op](n)), z3.And(d < 0, _Z3OPS[_FLIP[op]](n)))

    # ---- solver ----------------------------------------------------------------------------
    def check(self, *extra):
        self.stats.queries += 1
        t = time.perf_counter()
        r = self.solver.check(*extra)
        self.stats.solver_s += time.perf_counter() - t
        if r == z3.sat:
            self.stats.sat += 1
        elif r == z3.unsat:
            self.stats.unsat += 1
        else:
            self.stats.unknown += 1
        return r

    def check_branch(self, *extra):
        """feasibility query of a decision: shorter budget; an `unknown` here is treated as feasible by the caller"""
        self.solver.set("timeout", self.branch_timeout_ms)
        try:
            return self.check(*extra)
        finally:
            self.solver.set("timeout", self.timeout_ms)

    def extract_model(self):
        m = self.solver.model()
        out = []
        for zv in self.zvars:
            v = m.eval(zv, model_completion=True)
            if z3.is_rational_value(v):
                out.append(Fraction(v.numerator_as_long(), v.denominator_as_long()))
            elif z3.is_algebraic_value(v):
                return None
            else:
                return None
        return out

    def eval_model(self, f, model=None):
        """Exact value of f at the model point, or None if unavailable / pole."""
        model = self.model if model is None else model
        if model is None:
            return None
        if len(model) < self.ngens:
            return None
        d = poly_eval(f.denom, model)
        if d == 0:
            return None
        return poly_eval(f.numer, model) / d

    def ensure_model(self):
        """Make sure self.model satisfies the current path condition (or is None if z3 cannot say)."""
        if self.model is not None and self.model_valid:
            return True
        r = self.check()
        if r == z3.unsat:
            raise Abort("path condition unsatisfiable")
        if r == z3.sat:
            self.model = self.extract_model()
            self.model_valid = self.model is not None
            return self.model_valid
        self.model = None
        self.model_valid = False
        return False

    def assume(self, f, op):
        """Add (f op 0) to the path condition as an assumption (not a decision)."""
        if is_ground(f):
            if not _cmp0(ground_value(f), op):
                raise Abort("ground assumption false")
            return
        self.solver.add(self.sign_cond(f, op))
        self._note_sign(f, op, True)
        if self.model is not None and self.model_valid:
            v = self.eval_model(f)
            if v is None or not _cmp0(v, op):
                self.model_valid = False

    def _note_sign(self, f, op, value):
        allowed = _SIGNS[op] if value else ({-1, 0, 1} - _SIGNS[op])
        if allowed == {0}:
            self.eq_decisions += 1
        cur = self.signs.get(f)
        self.signs[f] = (cur & allowed) if cur is not None else set(allowed)

    def branch(self, f, op) -> bool:
        """Decide (f op 0) on this path; fork if both sides are feasible."""
        if is_ground(f):
            self.stats.ground_decisions += 1
            return _cmp0(ground_value(f), op)
        poss = self.signs.get(f)
        if poss is not None:
            want = _SIGNS[op]
            if poss <= want:
                self.stats.cached_decisions += 1
                return True
            if not (poss & want):
                self.stats.cached_decisions += 1
                return False
        if self.concolic:
            # follow the current model without exploring the other side (used for probes whose outcome is irrelevant)
            if not (self.model is not None and self.model_valid):
                self.ensure_model()
            v = self.eval_model(f) if (self.model is not None and self.model_valid) else None
            if v is not None:
                taken = _cmp0(v, op)
                self.solver.add(self.sign_cond(f, op if taken else _NEG[op]))
                self._note_sign(f, op, taken)
                self.stats.model_decisions += 1
                return taken
        i = len(self.trace)
        if i < len(self.prefix):
            d = self.prefix[i]
            self.trace.append(d)
            self.solver.add(self.sign_cond(f, op if d else _NEG[op]))
            self._note_sign(f, op, d)
            if i == len(self.prefix) - 1 and self.model is not None:
                self.model_valid = True   # model delivered with the prefix satisfies it
            return d
        # new decision
        if not (self.model is not None and self.model_valid):
            try:
                self.ensure_model()
            except Abort:
                raise
        v = self.eval_model(f) if (self.model is not None and self.model_valid) else None
        if v is not None:
            taken = _cmp0(v, op)
            self.stats.model_decisions += 1
            other_cond = self.sign_cond(f, _NEG[op] if taken else op)
            r = self.check_branch(other_cond)
            if r == z3.sat:
                # model of the other side, delivered with the queued prefix
                m = self.extract_model()
                self.pending.append((self.trace + [not taken], m))
                self.stats.forks += 1
            elif r == z3.unknown:
                self.unknown_feasibility += 1
                self.pending.append((self.trace + [not taken], None))
                self.stats.forks += 1
            self.trace.append(taken)
            self.solver.add(self.sign_cond(f, op if taken else _NEG[op]))
            self._note_sign(f, op, taken)
            if v is not None:
                mv = abs(v)
                if self.min_margin is None or mv < self.min_margin:
                    self.min_margin = mv
            return taken
        # no usable model: ask both sides
        ct = self.sign_cond(f, op)
        cf = self.sign_cond(f, _NEG[op])
        rt = self.check_branch(ct)
        mt = None
        if rt == z3.sat:
            mt = self.extract_model()
        rf = self.check_branch(cf)
        mf = None
        if rf == z3.sat:
            mf = self.extract_model()
        if rt == z3.unknown:
            self.unknown_feasibility += 1
        if rf == z3.unknown:
            self.unknown_feasibility += 1
        t_ok = rt != z3.unsat
        f_ok = rf != z3.unsat
        if t_ok and f_ok:
            self.pending.append((self.trace + [False], mf))
            self.stats.forks += 1
            taken = True
        elif t_ok:
            taken = True
        elif f_ok:
            taken = False
        else:
            raise Abort("infeasible path")
        self.trace.append(taken)
        self.solver.add(ct if taken else cf)
        self._note_sign(f, op, taken)
        m = mt if taken else mf
        if m is not None:
            self.model = m
            self.model_valid = True
        else:
            self.model_valid = False
        self.min_margin = Fraction(0) if self.min_margin is None else self.min_margin
        return taken

    # ---- witnesses -------------------------------------------------------------------------
    def witness(self):
        """dict name -> Fraction for every generator, satisfying the path condition; None if unavailable."""
        ok = self.ensure_model()
        if not ok:
            return None
        return {self.names[i]: self.model[i] for i in range(self.ngens)}


def _zq(fr: Fraction):
    if fr.denominator == 1:
        return z3.RealVal(fr.numerator)
    return z3.RealVal(f"{fr.numerator}/{fr.denominator}")


def _cmp0(v, op) -> bool:
    return {'<': v < 0, '<=': v <= 0, '>': v > 0, '>=': v >= 0, '==': v == 0, '!=': v != 0}[op]


# =============================================================================================
# proxies
# =============================================================================================

def lift(x):
    """Python number or SymFloat -> element of K, or None if not a (finite) number."""
    if isinstance(x, SymFloat):
        return x.f
    if isinstance(x, bool):
        return kconst(int(x))
    if isinstance(x, int):
        return kconst(x)
    if isinstance(x, _real_float):
        if x != x or x in (INF, -INF):
            raise Unsupported("non-finite operand")
        return kconst(x)
    if isinstance(x, Fraction):
        return kconst(x)
    if isinstance(x, _np.floating):
        return kconst(_real_float(x))
    if isinstance(x, _np.integer):
        return kconst(int(x))
    return None


def _is_inf(o):
    return isinstance(o, _real_float) and not isinstance(o, SymFloat) and o in (INF, -INF)


class SymBool:
    """(f op 0); truthiness is a decision of the current path."""
    __slots__ = ('f', 'op')

    def __init__(self, f, op):
        self.f, self.op = f, op

    def __bool__(self):
        return Ctx.cur.branch(self.f, self.op)

    def negate(self):
        return SymBool(self.f, _NEG[self.op])

    def __repr__(self):
        return f"<SymBool {self.f} {self.op} 0>"


def decide(f, op):
    """(f op 0): a Python bool when ground, otherwise a SymBool."""
    if is_ground(f):
        return _cmp0(ground_value(f), op)
    return SymBool(f, op)


class SymFloat(_real_float):
    __array_ufunc__ = None
    __slots__ = ('f', 'rnd')

    def __new__(cls, f):
        o = _real_float.__new__(cls, _real_float('nan'))
        o.f = f
        o.rnd = None
        return o

    # -- arithmetic ---------------------------------------------------------------------------
    def _bin(self, other, fn, refl=False):
        if _is_ndarray(other):
            out = _np.empty(other.shape, dtype=object)
            for idx in _np.ndindex(other.shape):
                out[idx] = self._bin(other[idx], fn, refl)
            return out.view(type(other)) if type(other) is not _np.ndarray else out
        if _is_inf(other):
            return NotImplemented
        o = lift(other)
        if o is None:
            return NotImplemented
        a, b = (o, self.f) if refl else (self.f, o)
        return SymFloat(fn(a, b))

    def __add__(self, o):
        if _is_inf(o):
            return o
        return self._bin(o, lambda a, b: a + b)

    def __radd__(self, o):
        if _is_inf(o):
            return o
        return self._bin(o, lambda a, b: a + b, True)

    def __sub__(self, o):
        if _is_inf(o):
            return -o
        return self._bin(o, lambda a, b: a - b)

    def __rsub__(self, o):
        if _is_inf(o):
            return o
        return self._bin(o, lambda a, b: a - b, True)

    def __mul__(self, o):
        return self._bin(o, lambda a, b: a * b)

    def __rmul__(self, o):
        return self._bin(o, lambda a, b: a * b, True)

    def _div(self, o, refl=False):
        if _is_ndarray(o):
            out = _np.empty(o.shape, dtype=object)
            for idx in _np.ndindex(o.shape):
                out[idx] = self._div(o[idx], refl)
            return out
        if _is_inf(o):
            if refl:
                raise Unsupported("inf / symbolic")
            return 0.0
        ov = lift(o)
        if ov is None:
            return NotImplemented
        a, b = (ov, self.f) if refl else (self.f, ov)
        if decide(b, '=='):
            raise ZeroDivisionError("float division by zero")
        return SymFloat(a / b)

    def __truediv__(self, o):
        return self._div(o)

    def __rtruediv__(self, o):
        return self._div(o, True)

    def __pow__(self, e, mod=None):
        if mod is None and isinstance(e, int) and not isinstance(e, bool) and 0 <= e <= 4:
            return SymFloat(self.f ** e)
        raise Unsupported("SymFloat ** non-small-int")

    def __neg__(self):
        return SymFloat(-self.f)

    def __pos__(self):
        return self

    def __abs__(self):
        return self if decide(self.f, '>=') else SymFloat(-self.f)

    # -- comparisons --------------------------------------------------------------------------
    def _cmp(self, o, op, res_vs_plus_inf):
        if _is_inf(o):
            return res_vs_plus_inf if o == INF else (not res_vs_plus_inf)
        ov = lift(o)
        if ov is None:
            return NotImplemented
        return decide(self.f - ov, op)

    def __lt__(self, o):
        return self._cmp(o, '<', True)

    def __le__(self, o):
        return self._cmp(o, '<=', True)

    def __gt__(self, o):
        return self._cmp(o, '>', False)

    def __ge__(self, o):
        return self._cmp(o, '>=', False)

    def __eq__(self, o):
        if _is_inf(o):
            return False
        try:
            ov = lift(o)
        except Unsupported:
            return False
        if ov is None:
            return NotImplemented
        return decide(self.f - ov, '==')

    def __ne__(self, o):
        if _is_inf(o):
            return True
        try:
            ov = lift(o)
        except Unsupported:
            return True
        if ov is None:
            return NotImplemented
        return decide(self.f - ov, '!=')

    def __hash__(self):
        if is_ground(self.f):
            v = ground_value(self.f)
            return hash(v)
        return hash(self.f)

    def __bool__(self):
        return bool(decide(self.f, '!='))

    # -- rounding -----------------------------------------------------------------------------
    def __round__(self, nd=None):
        c = Ctx.cur
        if nd is None:
            raise Unsupported("round(x) to int")
        mode = c.round_mode
        if mode == 'ideal' or (mode == 'lite' and nd >= c.lite_digits):
            return self
        if is_ground(self.f):
            # exact decimal rounding of an exact rational (half-even at exact ties, as CPython does on the true value)
            v = ground_value(self.f)
            return SymFloat(kconst(_round_fraction(v, nd)))
        if self.rnd is not None and self.rnd <= nd:
            return self          # already a multiple of 10^-rnd (syntactic idempotence)
        hit = c.round_cache.get((self.f, nd))
        if hit is not None:
            return hit           # functional consistency: equal arguments round to equal results
        c.roundings += 1
        half = Fraction(5, 10 ** (nd + 1))
        g = c.new_gen(f"rd!{c.ngens}", -half, half, hint=0)
        r = SymFloat(self.f + g)
        # sign preservation: x >= 0 => r >= 0 ; x <= 0 => r <= 0
        c.solver.add(z3.Implies(c.sign_cond(self.f, '>='), c.sign_cond(r.f, '>=')))
        c.solver.add(z3.Implies(c.sign_cond(self.f, '<='), c.sign_cond(r.f, '<=')))
        r.rnd = nd
        c.round_cache[(self.f, nd)] = r
        return r

    # -- identity-ish -------------------------------------------------------------------------
    def __deepcopy__(self, memo):
        return self

    def __copy__(self):
        return self

    def __reduce__(self):
        raise Unsupported("pickling a SymFloat")

    # -- text ---------------------------------------------------------------------------------
    def _tag(self):
        c = Ctx.cur
        if c is None:
            return '<sym>'
        t = f"⟦{len(c.registry)}⟧"
        c.registry[t] = self
        return t

    def __format__(self, spec):
        if spec == '':
            return self._tag()
        # fixed-point presentation: f"{x:.3f}" is the decimal string of x rounded to 3 digits (6 for a bare 'f'), and
        # reading it back gives round(x, n) - the same rounding model as round() itself
        m = re.fullmatch(r'(?:\.(\d+))?f', spec)
        if m:
            nd = int(m.group(1)) if m.group(1) is not None else 6
            r = self.__round__(nd)
            return r._tag() if isinstance(r, SymFloat) else format(r, spec)
        raise Unsupported(f"format spec {spec!r} on a symbolic float")

    def __str__(self):
        return self._tag()

    def __repr__(self):
        return self._tag()

    # -- everything else is loud --------------------------------------------------------------
    def __float__(self):
        if is_ground(self.f):
            v = ground_value(self.f)
            return v.numerator / v.denominator
        raise Unsupported("float(SymFloat) — a C-level read of a symbolic value")

    def __int__(self):
        raise Unsupported("int(SymFloat)")

    def __index__(self):
        raise Unsupported("index(SymFloat)")

    def __trunc__(self):
        raise Unsupported("trunc(SymFloat)")

    def __floor__(self):
        raise Unsupported("floor(SymFloat)")

    def __ceil__(self):
        raise Unsupported("ceil(SymFloat)")

    def __mod__(self, o):
        raise Unsupported("SymFloat % x")

    def __rmod__(self, o):
        raise Unsupported("x % SymFloat")

    def __floordiv__(self, o):
        raise Unsupported("SymFloat // x")

    def __rfloordiv__(self, o):
        raise Unsupported("x // SymFloat")

    def __divmod__(self, o):
        raise Unsupported("divmod(SymFloat)")

    def __rpow__(self, o):
        raise Unsupported("x ** SymFloat")

    def is_integer(self):
        raise Unsupported("SymFloat.is_integer")

    def as_integer_ratio(self):
        raise Unsupported("SymFloat.as_integer_ratio")

    def hex(self):
        raise Unsupported("SymFloat.hex")

    @property
    def real(self):
        return self

    def conjugate(self):
        return self


def _round_fraction(v: Fraction, nd: int) -> Fraction:
    scaled = v * 10 ** nd
    fl = scaled.numerator // scaled.denominator
    rem = scaled - fl
    if rem > Fraction(1, 2) or (rem == Fraction(1, 2) and fl % 2 == 1):
        fl += 1
    return Fraction(fl, 10 ** nd)


def _is_ndarray(o):
    return isinstance(o, _np.ndarray)


class _FloatMeta(type):
    def __instancecheck__(cls, inst):
        return isinstance(inst, _real_float)

    def __subclasscheck__(cls, sub):
        return issubclass(sub, _real_float)


class FloatShim(metaclass=_FloatMeta):
    """Bound to the name `float` inside pyplate.pyplate: maps tags back to their SymFloat."""

    def __new__(cls, x=0.0):
        if isinstance(x, str):
            c = Ctx.cur
            if c is not None:
                s = x.strip()
                if s in c.registry:
                    return c.registry[s]
                if s[:1] in '+-' and s[1:] in c.registry:
                    v = c.registry[s[1:]]
                    return -v if s[0] == '-' else v
                if '⟦' in s:
                    raise ValueError(f"could not convert string to float: {x!r}")
        if isinstance(x, SymFloat):
            return x
        return _real_float(x)


# sympy's heuristic polynomial GCD recurses once per generator of the *ring*, used or not, so in a 56- or 112-generator
# ring every cancellation pays for all of them.  Compute the GCD in the sub-ring of the generators that actually occur.
def _patch_sympy_gcd():
    from sympy.polys.rings import PolyElement, PolyRing
    if getattr(PolyElement, '_verif_patched', False):
        return
    orig = PolyElement._gcd_ZZ
    subrings = {}

    def _gcd_ZZ(f, g):
        ring = f.ring
        n = ring.ngens
        if n <= 6:
            return orig(f, g)
        used = [False] * n
        for poly in (f, g):
            for m in poly:
                for i, e in enumerate(m):
                    if e:
                        used[i] = True
        idx = [i for i in range(n) if used[i]]
        if not idx or len(idx) >= n - 2:
            return orig(f, g)
        key = (id(ring), tuple(idx))
        sub = subrings.get(key)
        if sub is None:
            sub = PolyRing([ring.symbols[i] for i in idx], ring.domain, ring.order)
            subrings[key] = sub

        def down(poly):
            out = sub.zero
            for m, c in poly.items():
                out[tuple(m[i] for i in idx)] = c
            return out

        def up(poly):
            out = ring.zero
            for m, c in poly.items():
                mm = [0] * n
                for k, i in enumerate(idx):
                    mm[i] = m[k]
                out[tuple(mm)] = c
            return out
        h, cff, cfg = orig(down(f), down(g))
        return up(h), up(cff), up(cfg)

    PolyElement._gcd_ZZ = _gcd_ZZ
    PolyElement._verif_patched = True


_patch_sympy_gcd()


# fractions.Fraction treats any float subclass as a float: Fraction * SymFloat would first convert the exact
# Fraction to a binary float (losing ~1e-17 relative) and then lift that by its repr.  Make Fraction defer to the
# proxy instead (NotImplemented -> Python calls SymFloat's reflected method, which is exact).
def _patch_fraction():
    if getattr(Fraction, '_verif_patched', False):
        return
    names = ['__add__', '__radd__', '__sub__', '__rsub__', '__mul__', '__rmul__', '__truediv__', '__rtruediv__',
             '__lt__', '__le__', '__gt__', '__ge__', '__eq__']
    for name in names:
        orig = getattr(Fraction, name)

        def wrapped(a, b, _orig=orig):
            if isinstance(b, SymFloat):
                return NotImplemented
            return _orig(a, b)
        wrapped.__name__ = name
        setattr(Fraction, name, wrapped)
    Fraction._verif_patched = True


_patch_fraction()


# =============================================================================================
# exploration
# =============================================================================================

class PathResult:
    __slots__ = ('kind', 'value', 'ctx', 'wall_s')

    def __init__(self, kind, value, ctx, wall_s):
        self.kind, self.value, self.ctx, self.wall_s = kind, value, ctx, wall_s


def explore(fn, *, max_paths=2000, on_path=None, **ctx_kw):
    """Run fn(ctx) on every feasible path.  fn returns a value (kind 'ok') or raises.

    on_path(PathResult) is called right after each path while its Ctx (and solver) is alive.
    Returns (n_paths, hit_limit)."""
    work: list[tuple[list[bool], list | None]] = [([], None)]
    n = 0
    first = True
    while work:
        prefix, model = work.pop()
        ctx = Ctx(prefix, model if not first else [], **ctx_kw)
        first = False
        Ctx.cur = ctx
        t0 = time.perf_counter()
        try:
            try:
                out = ('ok', fn(ctx))
            except Abort as e:
                out = ('abort', str(e))
            except Unsupported as e:
                out = ('unsupported', str(e))
            except RecursionError as e:
                out = ('unsupported', f"RecursionError: {e}")
            except Exception as e:  # noqa: BLE001 - harness did not classify it
                out = ('exc', e)
            work.extend(ctx.pending)
            ctx.pending = []
            pr = PathResult(out[0], out[1], ctx, time.perf_counter() - t0)
            if on_path is not None:
                on_path(pr)
        finally:
            Ctx.cur = None
        n += 1
        if n >= max_paths and work:
            return n, True
    return n, False
