"""./check <ID> [--tier quick|thorough] [--replay file] [--cell glob] [-j N] [-v]"""
from __future__ import annotations

import argparse
import fnmatch
import hashlib
import importlib
import json
import multiprocessing as mp
import os
import sys
import time

VERIF = os.path.dirname(os.path.dirname(os.path.abspath(__file__)))
EXIT_OK, EXIT_VIOLATION, EXIT_INCONCLUSIVE = 0, 1, 2


def load_known():
    p = os.path.join(VERIF, 'known_findings.json')
    if not os.path.exists(p):
        return []
    with open(p) as f:
        return json.load(f).get('findings', [])


def match_known(known, prop, fn, cell_id, label, region):
    for k in known:
        if k.get('status') != 'open' or k['property'] != prop:
            continue
        if not fnmatch.fnmatchcase(fn, k.get('harness', '*')):
            continue
        if not fnmatch.fnmatchcase(cell_id, k.get('cell', '*')):
            continue
        if not fnmatch.fnmatchcase(label, k.get('label', '*')):
            continue
        regions = k.get('region', '*')
        if isinstance(regions, str):
            regions = [regions]
        if not any(fnmatch.fnmatchcase(region or '', g) for g in regions):
            continue
        return k
    return None


def _worker(args):
    mod_name, cell = args
    from . import runner
    try:
        return runner.run_cell(mod_name, cell)
    except BaseException as e:  # noqa: BLE001
        import traceback
        return {'id': cell['id'], 'fn': cell['fn'], 'crash': f"{type(e).__name__}: {e}",
                'traceback': traceback.format_exc(limit=8)}


def main(argv=None):
    ap = argparse.ArgumentParser(prog='check')
    ap.add_argument('prop')
    ap.add_argument('--tier', default=os.environ.get('VERIF_TIER', 'quick'), choices=['quick', 'thorough'])
    ap.add_argument('--replay')
    ap.add_argument('--cell', default=None, help='glob on cell ids')
    ap.add_argument('-j', type=int, default=int(os.environ.get('VERIF_JOBS', '0')) or min(16, os.cpu_count() or 4))
    ap.add_argument('-v', action='store_true')
    ap.add_argument('--no-evidence', action='store_true')
    args = ap.parse_args(argv)
    prop = args.prop.upper()
    seed = int(os.environ.get('VERIF_SEED', '0') or 0)
    mod_name = f"vf.harness.{prop.lower()}"
    mod = importlib.import_module(mod_name)
    if hasattr(mod, 'main'):
        # engine-specific driver (CrossHair based checks)
        return mod.main(args, seed)

    if args.replay:
        return do_replay(mod_name, args.replay)
    code, ev = run_symx(mod, mod_name, prop, args, seed)
    if ev is not None and not args.no_evidence and not args.cell:
        save_evidence(prop, ev)
    return code


def save_evidence(prop, ev):
    os.makedirs(os.path.join(VERIF, 'evidence'), exist_ok=True)
    with open(os.path.join(VERIF, 'evidence', f"{prop}.json"), 'w') as f:
        json.dump(ev, f, indent=1, default=str)


def run_symx(mod, mod_name, prop, args, seed):
    """run every symx cell of a harness module; returns (exit code, evidence dict)"""
    t0 = time.time()
    cells = mod.cells(args.tier, seed)
    # a few discharged queries per check are re-decided by cvc5 1.0 and z3 4.8 (every 4th cell in quick, every cell in
    # thorough; 1 resp. 2 queries per chosen cell)
    for i, c in enumerate(cells):
        c.setdefault('seed', seed)
        c.setdefault('time_limit', 900 if args.tier == 'quick' else 2700)
        if 'cross_check' not in c:
            c['cross_check'] = (1 if i % 4 == 0 else 0) if args.tier == 'quick' else 2
    if args.cell:
        cells = [c for c in cells if fnmatch.fnmatchcase(c['id'], args.cell)]
    cells.sort(key=lambda c: -c.get('cost', 1))
    results = []
    if args.j <= 1 or len(cells) <= 1:
        for c in cells:
            results.append(_worker((mod_name, c)))
            if args.v:
                _print_cell(results[-1])
    else:
        ctxm = mp.get_context('fork')
        deadline = t0 + float(os.environ.get('VERIF_DEADLINE_S', '1500' if args.tier == 'quick' else '10800'))
        with ctxm.Pool(args.j, maxtasksperchild=8) as pool:
            it = pool.imap_unordered(_worker, [(mod_name, c) for c in cells], chunksize=1)
            done_ids = set()
            while len(results) < len(cells):
                try:
                    r = it.next(timeout=max(1.0, deadline - time.time()))
                except mp.TimeoutError:
                    pool.terminate()
                    break
                except StopIteration:
                    break
                results.append(r)
                done_ids.add(r['id'])
                if args.v:
                    _print_cell(r)
                if time.time() > deadline and len(results) < len(cells):
                    pool.terminate()
                    break
            unfinished = [c['id'] for c in cells if c['id'] not in done_ids]
    cell_by_id = {c['id']: c for c in cells}
    known = load_known()
    violations, known_hits, inconclusive = [], {}, []
    if args.j > 1 and len(cells) > 1 and unfinished:
        inconclusive.append({'why': f"wall-clock budget of the check exhausted with {len(unfinished)} cell(s) unfinished",
                             'cells': unfinished[:10]})
    boundary_only = []
    n_div = 0
    n_inc_known = 0
    xcheck = {'queries': 0, 'cvc5': {}, 'z3-4.8': {}}
    tot = {'paths': 0, 'paths_ok': 0, 'aborted': 0, 'obligations': 0, 'discharged_ground': 0, 'discharged_solver': 0,
           'native_runs': 0, 'decisions': 0, 'roundings': 0, 'native_vacuous': 0}
    stats = {}
    functions = set()
    samples = []
    outcomes = {}
    labels = {}
    for r in results:
        if 'crash' in r:
            inconclusive.append({'cell': r['id'], 'why': 'worker crashed: ' + r['crash'], 'traceback': r.get('traceback')})
            continue
        for k in tot:
            tot[k] += r.get(k, 0)
        for k, v in r['stats'].items():
            stats[k] = stats.get(k, 0) + v
        functions.update(r.get('functions_entered', []))
        for s in r['samples']:
            if len(samples) < 6:
                samples.append(s)
        for k, v in r['outcomes'].items():
            outcomes[k] = outcomes.get(k, 0) + v
        for k, (n, d) in r['labels'].items():
            cur = labels.setdefault(k, [0, 0])
            cur[0] += n
            cur[1] += d
        if r['hit_limit']:
            inconclusive.append({'cell': r['id'], 'why': f"path limit reached ({r['paths']} paths)"})
        if r['timeout']:
            inconclusive.append({'cell': r['id'], 'why': r.get('timeout_why', 'cell time limit reached')})
        for u in r['unsupported'][:3]:
            inconclusive.append({'cell': r['id'], 'why': 'unsupported construct: ' + u})
        for e in r['harness_errors'][:3]:
            inconclusive.append({'cell': r['id'], 'why': 'exception not reproduced natively: ' + e['error'],
                                 'traceback': e['traceback']})
        n_div += len(r['divergences'])
        xc = r.get('cross_check', {})
        xcheck['queries'] += xc.get('queries', 0)
        for name in ('cvc5', 'z3-4.8'):
            for k, v in xc.get(name, {}).items():
                xcheck[name][k] = xcheck[name].get(k, 0) + v
        for dis in xc.get('disagreements', []):
            inconclusive.append({'cell': r['id'], 'why': f"{dis['solver']} answers sat for a query that z3 5.1 discharged as unsat",
                                 'query': dis['query'][:600]})
        boundary_only.extend(dict(b, cell=r['id']) for b in r.get('boundary_only', [])[:3])
        for inc in r['inconclusive'][:5]:
            inc = dict(inc)
            inc['cell'] = r['id']
            if 'label' in inc and match_known(known, prop, r['fn'], r['id'], inc['label'], inc.get('region', '')) is not None:
                n_inc_known += 1      # an unconfirmed counterexample of an obligation that is a known finding in this cell
                continue
            inconclusive.append(inc)
        if r['paths_ok'] == 0 and not r['violations'] and not cell_by_id[r['id']].get('may_be_empty'):
            inconclusive.append({'cell': r['id'], 'why': 'vacuous: no path reached the obligations'})
        for v in r['violations']:
            k = match_known(known, prop, r['fn'], r['id'], v['label'], v['region'])
            v = dict(v)
            v['cell'] = r['id']
            v['fn'] = r['fn']
            if k is not None:
                known_hits.setdefault(k['id'], {'entry': k, 'hits': []})['hits'].append(v)
            else:
                violations.append(v)
    # vacuity over the whole check: harness-declared expectations
    expect = getattr(mod, 'EXPECT_OUTCOMES', None)
    if expect and not args.cell:
        for o in expect:
            if outcomes.get(o, 0) == 0:
                inconclusive.append({'why': f"vacuity guard: outcome '{o}' was never reached"})

    wall = time.time() - t0
    replay_paths = []
    os.makedirs(os.path.join(VERIF, 'replays'), exist_ok=True)
    for v in violations[:20]:
        cell = cell_by_id[v['cell']]
        payload = {'property': prop, 'module': mod_name, 'cell': cell, 'label': v['label'], 'region': v['region'],
                   'witness': v['witness'], 'detail': v['detail'], 'found_by': v['found_by'], 'native': v.get('native'),
                   'formula': v.get('formula'), 'traceback': v.get('traceback')}
        hname = hashlib.sha1(json.dumps([v['cell'], v['label'], v['region']], sort_keys=True).encode()).hexdigest()[:12]
        path = os.path.join(VERIF, 'replays', f"{prop}-{hname}.json")
        with open(path, 'w') as f:
            json.dump(payload, f, indent=1, default=str)
        replay_paths.append(path)

    for kid, kh in known_hits.items():
        e = kh['entry']
        print(f"KNOWN-FINDING: property={prop} {e['id']}: {e['what']} (reproduced in {len(kh['hits'])} cell(s), "
              f"e.g. {kh['hits'][0]['cell']} / {kh['hits'][0]['label']})")
    for v, pth in zip(violations, replay_paths):
        print(f"VIOLATION property={prop} replay={pth}")
        print(f"  cell={v['cell']} obligation={v['label']}[{v['region']}] found_by={v['found_by']}")
        print(f"  detail: {str(v['detail'])[:300]}")
        print(f"  witness: {json.dumps(v['witness'])[:400]}")
    for inc in inconclusive[:15]:
        print("INCONCLUSIVE " + json.dumps({k: v for k, v in inc.items() if k != 'traceback'}, default=str)[:700])
        if args.v and inc.get('traceback'):
            print(inc['traceback'])

    disch = tot['discharged_ground'] + tot['discharged_solver']
    print(f"{prop} tier={args.tier} cells={len(cells)} paths={tot['paths']} (ok {tot['paths_ok']}, vacuous {tot['aborted']}) "
          f"obligations={tot['obligations']} discharged={disch} (identity {tot['discharged_ground']}, solver {tot['discharged_solver']}) "
          f"queries={stats.get('queries', 0)} sat={stats.get('sat', 0)} unsat={stats.get('unsat', 0)} unknown={stats.get('unknown', 0)} "
          f"solver_s={stats.get('solver_s', 0):.1f} native_runs={tot['native_runs']} violations={len(violations)} "
          f"known={len(known_hits)} inconclusive={len(inconclusive)} boundary_only={len(boundary_only)} wall={wall:.1f}s")

    ev = write_evidence(mod, prop, args.tier, seed, cells, tot, stats, functions, samples, outcomes, labels,
                        violations, known_hits, inconclusive, wall, boundary_only, n_div, xcheck)
    if violations:
        return EXIT_VIOLATION, ev
    if inconclusive:
        return EXIT_INCONCLUSIVE, ev
    return EXIT_OK, ev


def write_evidence(mod, prop, tier, seed, cells, tot, stats, functions, samples, outcomes, labels, violations,
                   known_hits, inconclusive, wall, boundary_only=(), n_div=0, xcheck=None):
    disch = tot['discharged_ground'] + tot['discharged_solver']
    forks = stats.get('forks', 0)
    ev = {
        'property_id': prop, 'tier': tier, 'seed': seed, 'level': 'model_checking',
        'coverage': {
            'states': tot['paths'] + forks,
            'transitions': tot['decisions'],
            'traces_validated_against_impl': tot['native_runs'],
            'samples': samples or [{'note': 'no path completed'}],
            'obligations': tot['obligations'],
            'discharged': disch,
            'discharged_by_canonical_form': tot['discharged_ground'],
            'discharged_by_solver_unsat': tot['discharged_solver'],
            'obligations_by_label': {k: {'posed': v[0], 'discharged': v[1]} for k, v in sorted(labels.items())},
            'explanation': (
                "Bounded symbolic execution of the real PyPlate functions: 'states' = nodes of the explored path tree "
                "(symbolic paths + fork points), 'transitions' = branch decisions taken, each decided by z3 over the "
                "path condition; every obligation on every path is discharged by an unsat answer for its negation "
                "(or because its canonical rational-function form is identically true); every path's witness is also "
                "executed natively on the unpatched code (traces_validated_against_impl)."),
            'engine': 'symx (vf/symx.py): SymFloat proxies over Q(v0..vN) + z3 ' + _z3_version(),
            'cells': len(cells),
            'cell_ids_sample': [c['id'] for c in cells[:8]],
            'paths': tot['paths'], 'paths_with_obligations': tot['paths_ok'], 'paths_vacuous': tot['aborted'],
            'path_outcomes': outcomes,
            'solver_queries': {k: stats.get(k, 0) for k in ('queries', 'sat', 'unsat', 'unknown')},
            'solver_seconds': round(stats.get('solver_s', 0), 2),
            'decisions': {k: stats.get(k, 0) for k in ('ground_decisions', 'cached_decisions', 'model_decisions', 'forks')},
            'internal_roundings_modelled': tot['roundings'],
            'functions_encoded': sorted(functions),
            'bounds': getattr(mod, 'BOUNDS', ''),
            'outside_bounds': getattr(mod, 'OUTSIDE', ''),
            'known_findings_reproduced': sorted(known_hits),
            'inconclusive': [{k: v for k, v in i.items() if k != 'traceback'} for i in inconclusive[:10]],
            'real_model_only_boundary_cases': list(boundary_only)[:10],
            'paths_where_float_run_took_another_branch': n_div,
            'queries_re_decided_by_other_solvers': xcheck or {},
            'exhaustive': False,
        },
        'assumptions': list(getattr(mod, 'ASSUMPTIONS', [])) + COMMON_ASSUMPTIONS,
        'wall_s': round(wall, 2),
        'violations': len(violations),
    }
    return ev


COMMON_ASSUMPTIONS = [
    "Python floats are modelled as exact reals; IEEE-754 rounding of single operations is outside the claim "
    "(every counterexample and every path witness is re-executed natively in floats).",
    "float(repr(x)) == x (CPython shortest repr) — formatted numbers are carried through text as tags.",
    "numpy.linalg.solve is replaced by its exact contract (singular -> LinAlgError, else Cramer's rule).",
    "functools.cache on Container methods is cleared at the start of every path.",
    "Inputs are finite and inside the ranges given in coverage.bounds.",
]


def _z3_version():
    try:
        import z3
        return z3.get_version_string()
    except Exception:  # noqa: BLE001
        return '?'


def _print_cell(r):
    if 'crash' in r:
        print(f"  cell {r['id']}: CRASH {r['crash']}\n{r.get('traceback')}")
        return
    print(f"  cell {r['id']}: paths={r['paths']} ok={r['paths_ok']} ob={r['obligations']} "
          f"viol={len(r['violations'])} inc={len(r['inconclusive'])} unsupported={len(r['unsupported'])} "
          f"errs={len(r['harness_errors'])} div={len(r['divergences'])} q={r['stats']['queries']} "
          f"unk={r['stats']['unknown']} solver={r['stats']['solver_s']}s wall={r['wall_s']}s outcomes={r['outcomes']}",
          flush=True)
    for v in r['violations'][:4]:
        print(f"      viol {v['label']}[{v['region']}] by {v['found_by']}: {str(v['detail'])[:160]} :: {str(v.get('native'))[:200]}")
    for e in r['harness_errors'][:2]:
        print("      harness error:", e['error'], '\n', e['traceback'])
    for u in r['unsupported'][:2]:
        print("      unsupported:", u)
    for i in r['inconclusive'][:3]:
        print("      inconclusive:", json.dumps(i, default=str)[:500])
    for d in r['divergences'][:2]:
        print("      divergence:", json.dumps(d, default=str)[:400])


def do_replay(mod_name, path):
    from . import runner
    with open(path) as f:
        payload = json.load(f)
    res = runner.replay(payload.get('module', mod_name), payload['cell'], payload['witness'])
    hit = [f for f in res['failures'] if f[0] == payload['label'] and f[1] == payload['region']]
    print(json.dumps({'outcome': res['outcome'], 'error': res['error'], 'failures': res['failures'][:10],
                      'inputs': payload['witness']}, indent=1, default=str))
    if hit or (payload['label'] == 'no-unclassified-exception' and res['error']):
        print(f"VIOLATION property={payload['property']} replay={path}")
        return EXIT_VIOLATION
    print("replay: the recorded violation does not reproduce on this tree")
    return EXIT_OK


if __name__ == '__main__':
    sys.exit(main())
