"""Loading the real PyPlate from /repo's working tree and switching the symbolic shims on and off.

Nothing in /repo is edited: the shims are assigned into the imported module's namespace from
outside (`pyplate.pyplate.float`, `pyplate.pyplate.numpy/np`) and removed again for native runs.
"""
from __future__ import annotations

import importlib
import os
import sys
import contextlib

REPO = os.environ.get('VERIF_REPO', '/repo')

from . import symx, npshim  # noqa: E402

_instances: dict = {}


class Env:
    def __init__(self, config_dir: str, tag: str):
        self.config_dir = config_dir
        self.tag = tag
        old = os.environ.get('PYPLATE_CONFIG')
        os.environ['PYPLATE_CONFIG'] = config_dir
        for k in [k for k in sys.modules if k == 'pyplate' or k.startswith('pyplate.')]:
            del sys.modules[k]
        if REPO not in sys.path:
            sys.path.insert(0, REPO)
        try:
            self.pkg = importlib.import_module('pyplate')
            self.pp = importlib.import_module('pyplate.pyplate')
            self.slicer = importlib.import_module('pyplate.slicer')
        finally:
            if old is None:
                os.environ.pop('PYPLATE_CONFIG', None)
            else:
                os.environ['PYPLATE_CONFIG'] = old
        assert os.path.realpath(self.pp.__file__).startswith(os.path.realpath(REPO)), self.pp.__file__
        pp = self.pp
        self.Unit, self.Substance, self.Container = pp.Unit, pp.Substance, pp.Container
        self.Plate, self.Recipe, self.PlateSlicer = pp.Plate, pp.Recipe, pp.PlateSlicer
        self.config = pp.config
        self._real_numpy = pp.numpy
        self._orig_helpers = (pp.Unit.__dict__['get_human_readable_unit'],
                              pp.Unit.__dict__['convert_from_storage_to_standard_format'])
        self._orig_noise = pp.Recipe.__dict__.get('_rounding_noise')
        self._shim = npshim.Shim()
        self.symbolic = False

    # storage multipliers (read from the loaded config, with the *documented* meaning of the unit strings)
    @property
    def mol_prefix(self):
        return self.config.moles_storage_unit[:-3]

    @property
    def vol_prefix(self):
        return self.config.volume_storage_unit[:-1]

    def clear_caches(self):
        C = self.Container
        for name in ('has_liquid', 'get_substances', 'dataframe', '_repr_html_', '__repr__'):
            fn = C.__dict__.get(name)
            if fn is not None and hasattr(fn, 'cache_clear'):
                fn.cache_clear()

    def set_symbolic(self, on: bool, stub_text_helpers: bool = True):
        pp = self.pp
        if on:
            pp.float = symx.FloatShim
            pp.numpy = pp.np = self._shim
            if stub_text_helpers:
                pp.Unit.get_human_readable_unit = staticmethod(_stub_human_readable)
                pp.Unit.convert_from_storage_to_standard_format = staticmethod(_stub_standard_format)
            else:
                pp.Unit.get_human_readable_unit, pp.Unit.convert_from_storage_to_standard_format = self._orig_helpers
            # the library's own bound on rounding noise (tolerance of get_substance_used's net-decrease test) is 0 in the
            # real-number model, where roundings at internal precision are the identity; native runs use the real one
            if self._orig_noise is not None:
                pp.Recipe._rounding_noise = staticmethod(_stub_rounding_noise)
        else:
            if self._orig_noise is not None:
                pp.Recipe._rounding_noise = self._orig_noise
            if 'float' in pp.__dict__:
                del pp.float
            pp.numpy = pp.np = self._real_numpy
            pp.Unit.get_human_readable_unit, pp.Unit.convert_from_storage_to_standard_format = self._orig_helpers
        self.symbolic = on
        self.clear_caches()


def _stub_rounding_noise(total, terms):
    return 0


def _stub_human_readable(value, unit):
    """Non-forking summary of Unit.get_human_readable_unit (instruction text only; subject of C19): volumes are
    always reported in uL (one fixed prefix instead of the data-dependent rescaling loop), everything else as given."""
    if unit[-1:] == 'L':
        return value * 1e6, 'uL'
    return value, unit


def _stub_standard_format(what, quantity):
    """Non-forking summary of Unit.convert_from_storage_to_standard_format (instruction text only)."""
    return quantity, 'x'


def get_env(config_dir: str | None = None, tag: str = 'default') -> Env:
    if config_dir is None:
        config_dir = os.path.join(REPO, 'pyplate')
    key = (config_dir, tag)
    if key not in _instances:
        _instances[key] = Env(config_dir, tag)
    return _instances[key]
