"""Independent reference model: substance library, SI prefixes, unit conversion by definition.

Deliberately does NOT call Unit.convert_from / parse_quantity: every oracle in the harnesses is
computed from this table.  All constants are exact rationals (decimal reading).
"""
from __future__ import annotations

from fractions import Fraction as Fr

PREFIX = {'n': Fr(1, 10**9), 'u': Fr(1, 10**6), 'µ': Fr(1, 10**6), 'm': Fr(1, 1000), 'c': Fr(1, 100),
          'd': Fr(1, 10), '': Fr(1), 'da': Fr(10), 'k': Fr(1000), 'M': Fr(10**6)}
PREFIXES_ASCII = ['n', 'u', 'm', 'c', 'd', '', 'da', 'k', 'M']
BASES = ['L', 'g', 'mol', 'U']

# name -> (kind, mol_weight, density g/mL (liquids), specific activity text (enzymes), U per g)
LIB = {
    'water': ('liquid', '18.0153', '1.0', None, None),
    'DMSO': ('liquid', '78.13', '1.1004', None, None),
    'triethylamine': ('liquid', '101.19', '0.726', None, None),
    'NaCl': ('solid', '58.4428', None, None, None),
    'Na2SO4': ('solid', '142.04', None, None, None),
    'lipase': ('enzyme', None, None, '10 U/mg', '10000'),
    'amylase': ('enzyme', None, None, '0.5 U/g', '0.5'),
}


def split_unit(unit: str):
    """'mmol' -> ('m', 'mol'); 'U' -> ('', 'U')."""
    if unit == 'U':
        return '', 'U'
    for base in ('mol', 'g', 'L', 'U'):
        if unit.endswith(base):
            p = unit[:-len(base)]
            if p in PREFIX:
                return p, base
    raise ValueError(unit)


class Lib:
    """Substances built through the real factories with exact-constant attributes (per harness run)."""

    def __init__(self, h, names=None):
        self.h = h
        from .harness import history
        history.tour(h.env)     # earlier use of twin lots in this process (see harness/history.py)
        S = h.env.Substance
        cfg = h.env.config
        self.subs = {}
        self.info = {}
        for name in (names or LIB):
            kind, mw, rho, sa_text, sa = LIB[name]
            if kind == 'liquid':
                s = S.liquid(name, h.const(mw), h.const(rho))
                self.info[s] = ('liquid', Fr(mw), Fr(rho), None)
            elif kind == 'solid':
                s = S.solid(name, h.const(mw))
                self.info[s] = ('solid', Fr(mw), Fr(str(cfg.default_solid_density)), None)
            else:
                s = S.enzyme(name, sa_text)
                # the factory parses the text itself; pin the attribute to the exact constant so no
                # float noise enters the symbolic run (C06/C14 check the factory's parsing separately)
                s.specific_activity = h.const(sa)
                self.info[s] = ('enzyme', None, Fr(str(cfg.default_enzyme_density)), Fr(sa))
            self.subs[name] = s

    def __getitem__(self, name):
        return self.subs[name]

    # ---- definitions ------------------------------------------------------------------------
    def mol_mult(self):
        return PREFIX[self.h.env.mol_prefix]

    def vol_mult(self):
        return PREFIX[self.h.env.vol_prefix]

    def amount(self, s, stored, base):
        """stored amount (storage moles, or U for enzymes) of s expressed in base unit `base`."""
        kind, mw, rho, sa = self.info[s]
        if kind == 'enzyme':
            if base == 'U':
                return stored
            if base == 'g':
                return stored / sa
            if base == 'L':
                return stored / rho / 1000
            return stored * 0
        mol = stored * self.mol_mult()
        if base == 'mol':
            return mol
        if base == 'g':
            return mol * mw
        if base == 'L':
            return mol * mw / rho / 1000
        return stored * 0

    def total(self, contents, base):
        t = 0
        for s, a in contents.items():
            t = t + self.amount(s, a, base)
        return t

    def volume_storage(self, contents):
        """Σ volumes of contents in the volume storage unit."""
        return self.total(contents, 'L') / self.vol_mult()

    def storage_from(self, s, value, unit):
        """value in `unit` (with prefix) of substance s -> stored amount."""
        p, base = split_unit(unit)
        v = value * PREFIX[p]
        kind, mw, rho, sa = self.info[s]
        if kind == 'enzyme':
            if base == 'U':
                return v
            if base == 'g':
                return v * sa
            if base == 'L':
                return v * 1000 * rho
            raise ValueError("enzymes have no moles")
        if base == 'mol':
            mol = v
        elif base == 'g':
            mol = v / mw
        elif base == 'L':
            mol = v * 1000 * rho / mw
        else:
            raise ValueError("non-enzymes have no activity")
        return mol / self.mol_mult()
