"""C16 — recipe lifecycle discipline is enforced.

The universal part ("every call sequence") is obtained by exploring the REAL Recipe object through its public API
only, breadth first, until no new abstract state appears (done natively in cells(): it only needs verdicts). Every
(representative history, next call) pair then becomes one symbolic cell: the history is replayed and the call applied
with all step quantities symbolic, so that bake's accept/refuse is a solver-decided fork, and every verdict and
successor state is compared with a reference automaton."""
from __future__ import annotations

from fractions import Fraction as Fr

from ..ref import Lib
from .common import set_volume

PROPERTY = 'C16'
BOUNDS = ("Call sequences over the alphabet {uses(c1|c2|p|[c2,p]|c1-again|42), create_container(new|existing name), "
          "create_solution(new|existing name|declared container solvent|undeclared container solvent), "
          "create_solution_from(declared|undeclared source), transfer(c1->c2|c1->p[1,:]|undeclared source|undeclared "
          "destination), remove, dilute (plain|with a fresh new_name|with the name of another declared object as new_name), fill_to (declared|undeclared), start_stage(s1|s2), end_stage(s1|s2|all), bake} "
          "on the real Recipe object, explored breadth first to a fixpoint of the abstract state (locked, open stage, "
          "closed stages, declared names, names touched by steps, min(#steps, 2), whether a step renames its result); quick stops at depth 4 (387 states), thorough "
          "runs to the fixpoint (reached at depth <= 12, 1292 abstract states). Each (representative history, call) pair is executed symbolically with "
          "every step quantity symbolic in [1e-3, 1e4] uL, so both outcomes of bake are explored; after a successful "
          "bake the whole alphabet is applied again and the three tracking queries are compared before/after.")
OUTSIDE = ("Call sequences continuing after a bake that raised (the library leaves the recipe half-executed; the property "
           "is silent about it); objects other than two containers and one plate; argument type errors other than "
           "uses(42).")
ASSUMPTIONS = ["Recipe._rounding_noise (the library's own bound on float rounding noise, the tolerance of get_substance_used's net-decrease test) is 0 in the real-number model, where roundings at internal precision are the identity; native companion runs use the real one",
               "the abstract state is adequate: checked, not assumed - every history reaching an abstract state gets the "
               "reference verdict for every call",
               "instruction-text helpers are replaced by non-forking summaries (subject of C19)"]
EXPECT_OUTCOMES = ['ok']

CALLS = ['uses:c1', 'uses:c2', 'uses:p', 'uses:[c2,p]', 'uses:42',
         'create_container:k', 'create_container:c1',
         'create_solution:s', 'create_solution:c1', 'create_solution:s@c1', 'create_solution:s@x',
         'create_solution_from:c1', 'create_solution_from:x',
         'transfer:c1>c2', 'transfer:c1>p', 'transfer:x>c2', 'transfer:c1>x',
         'remove:c2', 'remove:x', 'dilute:c1', 'dilute:c1@renamed', 'dilute:c1@c2', 'dilute:x', 'fill_to:c2', 'fill_to:x',
         'start_stage:s1', 'start_stage:s2', 'end_stage:s1', 'end_stage:s2', 'end_stage:all',
         'bake']


# ---- reference automaton --------------------------------------------------------------------------------------
def initial():
    return {'locked': False, 'open': None, 'closed': frozenset(), 'declared': frozenset(), 'touched': frozenset(),
            'nsteps': 0, 'renaming': False}


def key(st):
    return (st['locked'], st['open'], st['closed'], st['declared'], st['touched'], min(st['nsteps'], 2), st['renaming'])


def ref_step(st, call):
    """(verdict, new state).  verdict: 'ok' | exception class name | 'bake' (ok or ValueError, decided by feasibility)"""
    op, _, arg = call.partition(':')
    st = dict(st)
    dec, touched = set(st['declared']), set(st['touched'])

    def done(verdict='ok'):
        st['declared'], st['touched'] = frozenset(dec), frozenset(touched)
        return verdict, st

    if op == 'bake':
        if st['locked']:
            return 'RuntimeError', st
        if dec - touched:
            return 'ValueError', st          # something declared was not used: refused, and the recipe stays as it was
        if st['open'] is not None:
            st['closed'] = st['closed'] | {st['open']}
            st['open'] = None
        st['locked'] = True
        return 'bake', st
    if op == 'uses' and arg == '42':
        return ('RuntimeError' if st['locked'] else 'TypeError'), st
    if st['locked']:
        return 'RuntimeError', st
    if op == 'uses':
        names = {'c1': ['c1'], 'c2': ['c2'], 'p': ['p'], '[c2,p]': ['c2', 'p']}[arg]
        for n in names:
            if n in dec:
                return done('ValueError')     # earlier names of the iterable stay declared
            dec.add(n)
        return done()
    if op == 'create_container':
        if arg in dec:
            return 'ValueError', st
        dec.add(arg)
        touched.add(arg)
        st['nsteps'] += 1
        return done()
    if op == 'create_solution':
        name, _, solvent = arg.partition('@')
        if solvent and solvent not in dec:
            return 'ValueError', st
        if name in dec:
            return 'ValueError', st
        dec.add(name)
        touched.add(name)
        if solvent:
            touched.add(solvent)
        st['nsteps'] += 1
        return done()
    if op == 'create_solution_from':
        if arg not in dec:
            return 'ValueError', st
        if 'f' in dec:
            return 'ValueError', st
        dec.add('f')
        touched.update({'f', arg})
        st['nsteps'] += 1
        return done()
    if op == 'transfer':
        a, b = arg.split('>')
        if a not in dec or b not in dec:
            return 'ValueError', st
        touched.update({a, b})
        st['nsteps'] += 1
        return done()
    if op in ('remove', 'dilute', 'fill_to'):
        arg, _, new_name = arg.partition('@')
        if arg not in dec:
            return 'ValueError', st
        if new_name and new_name in dec and new_name != arg:
            return 'ValueError', st     # renaming the result to the name of another declared object: a second object of that name
        if new_name:
            st['renaming'] = True       # the result is renamed; the recipe keeps addressing it by its declared name
        touched.add(arg)
        st['nsteps'] += 1
        return done()
    if op == 'start_stage':
        if arg in st['closed'] or st['open'] is not None:
            return 'ValueError', st
        st['open'] = arg
        return 'ok', st
    if op == 'end_stage':
        if arg == 'all' or st['open'] != arg:
            return 'ValueError', st
        st['closed'] = st['closed'] | {arg}
        st['open'] = None
        return 'ok', st
    raise KeyError(call)


# ---- the real object ------------------------------------------------------------------------------------------------
class World:
    """objects of the alphabet + the real Recipe; quantities come from `q(name)` (symbolic or concrete)"""

    def __init__(self, env, q, lib=None):
        self.env = env
        S, C = env.Substance, env.Container
        if lib is not None:
            self.water, self.salt = lib['water'], lib['NaCl']
        else:
            self.water, self.salt = S.liquid('water', 18.0153, 1.0), S.solid('NaCl', 58.4428)
        self.c1 = C('c1', initial_contents=[(self.water, '100 mL'), (self.salt, '10 g')])
        self.c2 = C('c2', '50 mL')
        self.x = C('x', initial_contents=[(self.water, '10 mL'), (self.salt, '1 g')])       # never declared
        self.p = env.Plate('p', '500 uL', rows=1, columns=2)
        self.rec = env.Recipe()
        self.q = q
        self.n = 0

    def obj(self, name):
        return getattr(self, name)

    def apply(self, call):
        """returns verdict: 'ok' or exception class name"""
        op, _, arg = call.partition(':')
        rec = self.rec
        self.n += 1
        qv = self.q(f"q{self.n}")
        try:
            if op == 'bake':
                rec.bake()
            elif op == 'uses':
                if arg == '42':
                    rec.uses(42)
                elif arg == '[c2,p]':
                    rec.uses([self.c2, self.p])
                else:
                    rec.uses(self.obj(arg))
            elif op == 'create_container':
                rec.create_container(arg, '20 mL', [(self.water, f"{qv} uL")])
            elif op == 'create_solution':
                name, _, solvent = arg.partition('@')
                solv = self.obj(solvent) if solvent else self.water
                rec.create_solution(self.salt, solv, name=name, concentration='0.1 M', total_quantity=f"{qv} uL")
            elif op == 'create_solution_from':
                rec.create_solution_from(self.obj(arg), self.salt, '0.05 M', self.water, f"{qv} uL", name='f')
            elif op == 'transfer':
                a, b = arg.split('>')
                dst = self.p[1, :] if b == 'p' else self.obj(b)
                rec.transfer(self.obj(a), dst, f"{qv} uL")
            elif op == 'remove':
                rec.remove(self.obj(arg), self.water)
            elif op == 'dilute':
                name, _, new_name = arg.partition('@')
                rec.dilute(self.obj(name), self.salt, '0.5 M', self.water, new_name or None)
            elif op == 'fill_to':
                rec.fill_to(self.obj(arg), self.water, f"{qv} uL")
            elif op == 'start_stage':
                rec.start_stage(arg)
            elif op == 'end_stage':
                rec.end_stage(arg)
            else:
                raise KeyError(call)
        except Exception as e:  # noqa: BLE001
            return type(e).__name__
        return 'ok'

    def observe(self):
        rec = self.rec
        return {'locked': rec.locked, 'open': None if rec.current_stage == 'all' else rec.current_stage,
                'closed': frozenset(k for k in rec.stages if k != 'all'), 'declared': frozenset(rec.results),
                'nsteps': len(rec.steps)}


def _explore(env, max_depth):
    """native breadth-first exploration of the real object; returns ({abstract key: shortest history}, depth, fixpoint?)
    Histories consist of accepted calls only; a bake that raises ends a history."""
    env.set_symbolic(False)
    reps = {key(initial()): []}
    frontier = [[]]
    depth = 0
    while frontier and depth < max_depth:
        depth += 1
        nxt = []
        for hist in frontier:
            for call in CALLS:
                w = World(env, lambda n: 50.0)
                st = initial()
                for c in hist:
                    w.apply(c)
                    st = ref_step(st, c)[1]
                if st['locked']:
                    continue                      # nothing is accepted after bake (checked symbolically in h_state)
                got = w.apply(call)
                if got != 'ok':
                    continue
                st2 = ref_step(st, call)[1]
                k = key(st2)
                if k not in reps:
                    reps[k] = hist + [call]
                    nxt.append(hist + [call])
        frontier = nxt
    return reps, depth, not frontier


def cells(tier, seed):
    from ..env import get_env
    env = get_env()
    reps, depth, fix = _explore(env, 4 if tier == 'quick' else 12)
    out = []
    for k, hist in sorted(reps.items(), key=lambda kv: (len(kv[1]), kv[1])):
        out.append({'id': f"d{len(hist)}/" + ('>'.join(hist) or 'init'), 'fn': 'h_state', 'round': 'lite', 'max_paths': 300,
                    'cost': 1 + len(hist), 'params': {'hist': hist, 'fixpoint': fix, 'depth': depth}})
    return out


def _tracking(w):
    """answers of the three tracking queries on a baked recipe (exceptions recorded by class)"""
    rec = w.rec
    out = []
    for fn in (lambda: rec.get_substance_used(w.water, unit='uL', destinations=[o for o in (w.c1, w.c2, w.p) if o.name in rec.used] or 'plates'),
               lambda: rec.get_substance_used(w.salt, unit='mg'),
               lambda: rec.get_container_flows(w.c1, unit='uL') if 'c1' in rec.used else None,
               lambda: rec.get_amount_remaining(w.c1, unit='uL') if 'c1' in rec.used else None):
        try:
            out.append(('value', fn()))
        except Exception as e:  # noqa: BLE001
            out.append(('raised', type(e).__name__))
    return out


def _same_answers(a, b):
    from ..symx import lift

    def same(x, y):
        if isinstance(x, dict) and isinstance(y, dict):
            return set(x) == set(y) and all(same(x[k], y[k]) for k in x)
        if hasattr(x, 'shape') and hasattr(y, 'shape'):
            return x.shape == y.shape and all(same(p, q) for p, q in zip(x.flatten(), y.flatten()))
        if getattr(x, 'f', None) is not None or getattr(y, 'f', None) is not None:
            return lift(x) == lift(y)
        return x == y
    return len(a) == len(b) and all(k1 == k2 and same(v1, v2) for (k1, v1), (k2, v2) in zip(a, b))


def _results_fingerprint(w):
    from .common import fingerprint_container
    fp = {}
    for name, obj in w.rec.results.items():
        if hasattr(obj, 'wells'):
            fp[name] = tuple(fingerprint_container(c) for c in obj.wells.flatten())
        else:
            fp[name] = fingerprint_container(obj)
    return fp


def h_state(h):
    hist = h.p['hist']
    lib = Lib(h, ['water', 'NaCl'])
    w = World(h.env, lambda n: h.real(n, Fr(1, 1000), 10**4), lib)
    st = initial()
    # replay the history (every call of it was accepted when the representative was found)
    for c in hist:
        verdict, st2 = ref_step(st, c)
        got = w.apply(c)
        if verdict == 'bake':
            if got == 'ValueError':
                h.outcome = 'bake-infeasible'
                return
            verdict = 'ok'
        h.require('history-verdict', h.true(got == verdict), detail=f"{c}: got {got}, reference {verdict}")
        if got != 'ok':
            return
        st = st2
    obs = w.observe()
    h.require('state==reference', h.true(obs['locked'] == st['locked'] and obs['open'] == st['open'] and
                                         obs['closed'] == st['closed'] and obs['declared'] == st['declared'] and
                                         obs['nsteps'] == st['nsteps']),
              detail=f"observed {obs} vs reference {st}")
    h.outcome = 'ok'
    if st['locked']:
        # ---- after a successful bake: everything raises RuntimeError, nothing changes
        before_n = len(w.rec.steps)
        before_fp = _results_fingerprint(w)
        before_q = _tracking(w)
        w.q = lambda n: h.const(50)
        for call in CALLS:
            got = w.apply(call)
            want = 'RuntimeError'
            h.require('after-bake:RuntimeError', h.true(got == want), region=call.partition(':')[0],
                      detail=f"{call} after bake: got {got}")
        h.require('after-bake:steps-unchanged', h.true(len(w.rec.steps) == before_n))
        h.require('after-bake:results-unchanged', h.true(_results_fingerprint(w) == before_fp))
        h.require('after-bake:tracking-unchanged', h.true(_same_answers(_tracking(w), before_q)))
        return
    # ---- every call of the alphabet from this state, each on a fresh replay
    for call in CALLS:
        w2 = World(h.env, lambda n: h.real('b.' + n, Fr(1, 1000), 10**4), lib) if call == 'bake' else \
            World(h.env, lambda n: h.const(50), lib)
        for c in hist:
            w2.apply(c)
        verdict, st2 = ref_step(st, call)
        steps_before = len(w2.rec.steps)
        if call == 'bake':
            fp_before = _results_fingerprint(w2)
            shape_before = [(len(s_.frm), len(s_.to)) for s_ in w2.rec.steps]
        got = w2.apply(call)
        if call == 'bake' and got == 'ValueError':
            # a refusal is a refusal: the recipe's objects and steps are as they were (so that completing the recipe and
            # baking again gives what baking the completed recipe gives)
            h.require('refused-bake:results-unchanged', h.true(_results_fingerprint(w2) == fp_before),
                      detail=f"{' > '.join(hist) or 'init'} then a refused bake: the recipe's objects changed")
            h.require('refused-bake:steps-unchanged',
                      h.true([(len(s_.frm), len(s_.to)) for s_ in w2.rec.steps] == shape_before),
                      detail=f"{' > '.join(hist) or 'init'} then a refused bake: steps carry states of the abandoned run")
        if verdict == 'bake':
            h.require('bake:verdict', h.true(got in ('ok', 'ValueError')), detail=f"bake: got {got}")
            if got == 'ok':
                o2 = w2.observe()
                h.require('bake:locks-and-closes-stage', h.true(o2['locked'] and o2['open'] is None and o2['closed'] == st2['closed']),
                          detail=f"after bake: {o2}")
                h.require('bake:result-names', h.true(set(w2.rec.results) == set(st2['declared'])))
            else:
                h.require('bake:not-locked-on-failure', h.true(not w2.rec.locked))
            continue
        h.require('verdict', h.true(got == verdict), region=call.partition(':')[0],
                  detail=f"{' > '.join(hist) or 'init'} then {call}: got {got}, reference {verdict}")
        o2 = w2.observe()
        if got == verdict:
            h.require('successor', h.true(o2['locked'] == st2['locked'] and o2['open'] == st2['open'] and
                                          o2['closed'] == st2['closed'] and o2['declared'] == st2['declared'] and
                                          o2['nsteps'] == st2['nsteps']), region=call.partition(':')[0],
                      detail=f"after {call}: observed {o2} vs reference {st2}")
        if got != 'ok':
            h.require('refused-call-adds-no-step', h.true(len(w2.rec.steps) == steps_before), region=call.partition(':')[0])
