"""C06 — unit conversions follow molar mass, density and specific activity (complete table)."""
from __future__ import annotations

from fractions import Fraction as Fr

from ..ref import PREFIX

PROPERTY = 'C06'
BOUNDS = ("Unit.convert_from / convert / convert_to_storage / convert_from_storage and the Substance factories with a "
          "symbolic amount in [-1e6, 1e6], symbolic molecular weight in [1, 1e4], density in [0.1, 25], specific "
          "activity in [1e-3, 1e6], symbolic configured default solid/enzyme density in [0.1, 25]; complete table: 3 "
          "substance kinds x 4x4 base units x 10x10 prefixes (all supported prefixes incl. the 'µ' alias) = 4800 "
          "conversions, plus linearity, composition over every base-unit triple and round trips; enzyme factory with "
          "U/g, U/mg, g/U, mg/U texts and a symbolic value.")
OUTSIDE = ("IEEE rounding; the configured default density 'inf' (non-finite values are outside the real model: 6 concrete "
           "smoke conversions are run natively instead); unit strings outside the supported prefix/base table (C14).")
ASSUMPTIONS = ["convert_from performs no internal rounding (it does not in the current source; a rounding introduced "
               "there re-enters through the delta model and is compared with slack 0)"]
EXPECT_OUTCOMES = ['ok']

ALL_PREFIXES = ['n', 'u', 'µ', 'm', 'c', 'd', '', 'da', 'k', 'M']
BASES = ['L', 'g', 'mol', 'U']
KINDS = ['liquid', 'solid', 'enzyme']


def cells(tier, seed):
    out = []
    for kind in KINDS:
        for fb in BASES:
            for tb in BASES:
                out.append({'id': f"table/{kind}/{fb}->{tb}", 'fn': 'h_table', 'round': 'lite', 'max_paths': 20,
                            'params': {'kind': kind, 'fb': fb, 'tb': tb}})
        out.append({'id': f"algebra/{kind}", 'fn': 'h_algebra', 'round': 'lite', 'max_paths': 20, 'params': {'kind': kind}})
    out.append({'id': "storage", 'fn': 'h_storage', 'round': 'lite', 'max_paths': 20, 'params': {}})
    for text in ['U/g', 'U/mg', 'g/U', 'mg/U', 'kU/g', 'U/ug']:
        out.append({'id': f"enzyme-factory/{text.replace('/', '_')}", 'fn': 'h_enzyme_factory', 'round': 'lite',
                    'max_paths': 20, 'params': {'unit': text}})
    out.append({'id': "inf-density-smoke", 'fn': 'h_inf_smoke', 'round': 'lite', 'max_paths': 5, 'params': {}})
    out.append({'id': "history/same-name-substances", 'fn': 'h_same_name', 'round': 'lite', 'max_paths': 20, 'params': {}})
    return out


class _Cfg:
    """Temporarily override the configured default densities with harness values."""

    def __init__(self, h, solid, enzyme):
        self.cfg = h.env.config
        self.new = (solid, enzyme)

    def __enter__(self):
        self.old = (self.cfg.default_solid_density, self.cfg.default_enzyme_density)
        self.cfg.default_solid_density, self.cfg.default_enzyme_density = self.new

    def __exit__(self, *a):
        self.cfg.default_solid_density, self.cfg.default_enzyme_density = self.old


def _mk_substance(h, kind):
    """returns (substance, mw, rho, sa) with symbolic attributes; rho is g/mL (U/mL for enzymes)"""
    S = h.env.Substance
    if kind == 'liquid':
        mw = h.real('mw', 1, 10**4)
        rho = h.real('rho', Fr(1, 10), 25)
        return S.liquid('x', mw, rho), mw, rho, None
    if kind == 'solid':
        mw = h.real('mw', 1, 10**4)
        rho = h.real('default_solid_density', Fr(1, 10), 25)
        with _Cfg(h, rho, h.env.config.default_enzyme_density):
            s = S.solid('x', mw)
        return s, mw, rho, None
    rho = h.real('default_enzyme_density', Fr(1, 10), 25)
    sa = h.real('sa', Fr(1, 1000), 10**6)
    with _Cfg(h, h.env.config.default_solid_density, rho):
        s = S.enzyme('x', f"{sa} U/g")
    return s, None, rho, sa


def factor(kind, fb, tb, mw, rho, sa):
    """Independent table: base units of `tb` per base unit of `fb` ('reject' / 0 where the property says so)."""
    if kind == 'enzyme':
        if fb == 'mol' or tb == 'mol':
            return 0
        per_U = {'U': 1, 'g': 1 / sa, 'L': 1 / (rho * 1000)}      # fb/tb per activity unit
        return per_U[tb] / per_U[fb]
    if fb == 'U':
        return 'reject'
    if tb == 'U':
        return 0
    per_mol = {'mol': 1, 'g': mw, 'L': mw / (rho * 1000)}
    return per_mol[tb] / per_mol[fb]


def h_table(h):
    p = h.p
    U = h.env.Unit
    s, mw, rho, sa = _mk_substance(h, p['kind'])
    q = h.real('q', -10**6, 10**6)
    F = factor(p['kind'], p['fb'], p['tb'], mw, rho, sa)
    for pf in ALL_PREFIXES:
        for pt in ALL_PREFIXES:
            fu, tu = pf + p['fb'], pt + p['tb']
            try:
                got = U.convert_from(s, q, fu, tu)
            except ValueError as e:
                h.require('non-enzyme-in-U-rejected', h.true(F == 'reject'), detail=f"{fu}->{tu} raised {e}")
                continue
            if F == 'reject':
                h.fail('non-enzyme-in-U-rejected', f"{fu}->{tu} returned a value for a non-enzyme measured in U")
                continue
            want = q * PREFIX[pf] * F / PREFIX[pt]
            h.require('factor', h.eq(got, want), region=f"{p['fb']}->{p['tb']}",
                      detail=f"convert_from({p['kind']}, q, '{fu}', '{tu}') = q*{PREFIX[pf]}*F/{PREFIX[pt]}")
    # Unit.convert = convert_from o parse_quantity (one prefix pair per cell is enough: the same code path)
    if F != 'reject':
        got = U.convert(s, f"{q} m{p['fb']}", 'k' + p['tb'])
        h.require('convert==convert_from', h.eq(got, q * PREFIX['m'] * F / PREFIX['k']))
    h.outcome = 'ok'


def h_algebra(h):
    """linearity, composition a->b->c = a->c, round trip a->b->a = id (where the factors are finite, non-zero)."""
    p = h.p
    U = h.env.Unit
    s, mw, rho, sa = _mk_substance(h, p['kind'])
    q1 = h.real('q1', -10**6, 10**6)
    q2 = h.real('q2', -10**6, 10**6)
    for a in BASES:
        for b in BASES:
            Fab = factor(p['kind'], a, b, mw, rho, sa)
            if Fab == 'reject':
                continue
            ua, ub = 'm' + a, 'k' + b
            x1, x2, x12 = U.convert_from(s, q1, ua, ub), U.convert_from(s, q2, ua, ub), U.convert_from(s, q1 + q2, ua, ub)
            h.require('linear', h.eq(x12, x1 + x2), region=f"{a}->{b}")
            if isinstance(Fab, int) and Fab == 0:
                continue
            back = U.convert_from(s, x1, ub, ua)
            h.require('round-trip', h.eq(back, q1), region=f"{a}->{b}->{a}")
            for c in BASES:
                Fbc = factor(p['kind'], b, c, mw, rho, sa)
                if Fbc == 'reject' or (isinstance(Fbc, int) and Fbc == 0):
                    continue
                uc = 'u' + c
                via = U.convert_from(s, x1, ub, uc)
                direct = U.convert_from(s, q1, ua, uc)
                h.require('composition', h.eq(via, direct), region=f"{a}->{b}->{c}")
    h.outcome = 'ok'


def h_storage(h):
    U = h.env.Unit
    v = h.real('v', -10**6, 10**6)
    mp, vp = PREFIX[h.env.mol_prefix], PREFIX[h.env.vol_prefix]
    sl = h.rs(h.ulp)
    for pf in ALL_PREFIXES:
        h.require('to-storage', h.eq(U.convert_to_storage(v, pf + 'L'), v * PREFIX[pf] / vp, sl), region='L')
        h.require('to-storage', h.eq(U.convert_to_storage(v, pf + 'mol'), v * PREFIX[pf] / mp, sl), region='mol')
        h.require('from-storage', h.eq(U.convert_from_storage(v, pf + 'L'), v * vp / PREFIX[pf], sl), region='L')
        h.require('from-storage', h.eq(U.convert_from_storage(v, pf + 'mol'), v * mp / PREFIX[pf], sl), region='mol')
    for bad in ['g', 'U', 'mg']:
        try:
            U.convert_from_storage(v, bad)
            h.fail('from-storage-rejects-non-storage-units', f"convert_from_storage(v, '{bad}') returned")
        except ValueError:
            h.require('from-storage-rejects-non-storage-units', h.true(True))
    h.outcome = 'ok'


def h_enzyme_factory(h):
    S = h.env.Substance
    unit = h.p['unit']
    x = h.real('x', Fr(1, 1000), 10**4)
    num, den = unit.split('/')
    s = S.enzyme('e', f"{x} {unit}")
    # specific activity in U/g
    if num.endswith('U'):
        want = x * PREFIX[num[:-1]] / PREFIX[den[:-1]]
    else:
        want = 1 / (x * PREFIX[num[:-1]] / PREFIX[den[:-1]])
    h.require('specific-activity', h.eq(s.specific_activity, want, h.rs(h.ulp * 10 * (1 + want * want))), region=unit)
    h.require('enzyme-flags', h.true(s.is_enzyme() and not s.is_solid() and not s.is_liquid()))
    h.outcome = 'ok'


def h_same_name(h):
    """conversions depend on the substance's own attributes, not on what was converted before: two substances that share
    a name (two lots of an enzyme with different specific activity, two grades of a liquid) converted one after the
    other with the same amount and units"""
    S, U = h.env.Substance, h.env.Unit
    q = h.real('q', Fr(1, 1000), 10**6)
    sa1, sa2 = h.real('sa1', 1, 10**4), h.real('sa2', 1, 10**4)
    h.assume(h.gt(sa2, sa1))
    e1, e2 = S.enzyme('lot', f"{sa1} U/g"), S.enzyme('lot', f"{sa2} U/g")
    h.outcome = 'ok'
    for (fu, tu, f1, f2) in [('g', 'U', sa1, sa2), ('mg', 'kU', sa1 / 10**6, sa2 / 10**6), ('U', 'g', 1 / sa1, 1 / sa2)]:
        a = U.convert_from(e1, q, fu, tu)
        b = U.convert_from(e2, q, fu, tu)
        h.require('history-independent', h.eq(a, q * f1) & h.eq(b, q * f2), region=f"{fu}->{tu}",
                  detail="the second lot must be converted with its own specific activity")
    mw1, mw2 = h.real('mw1', 10, 100), h.real('mw2', 100, 1000)
    l1, l2 = S.liquid('grade', mw1, h.const(1)), S.liquid('grade', mw2, h.const(1))
    a, b = U.convert_from(l1, q, 'mol', 'g'), U.convert_from(l2, q, 'mol', 'g')
    h.require('history-independent', h.eq(a, q * mw1) & h.eq(b, q * mw2), region='mol->g')


def h_inf_smoke(h):
    """default density 'inf' (solids/enzymes take no volume): concrete conversions only."""
    S, U = h.env.Substance, h.env.Unit
    with _Cfg(h, float('inf'), float('inf')):
        solid = S.solid('s', 58.4428)
        enz = S.enzyme('e', '10 U/mg')
    h.require('inf:solid-volume-zero', h.true(U.convert_from(solid, 2.0, 'mol', 'L') == 0.0))
    h.require('inf:solid-mass', h.true(abs(U.convert_from(solid, 2.0, 'mol', 'g') - 116.8856) < 1e-9))
    h.require('inf:enzyme-volume-zero', h.true(U.convert_from(enz, 5.0, 'U', 'mL') == 0.0))
    h.require('inf:enzyme-mass', h.true(abs(U.convert_from(enz, 5.0, 'U', 'mg') - 0.5) < 1e-12))
    h.outcome = 'ok'
