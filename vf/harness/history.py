"""Process history shared by every harness: earlier use of *other lots* of the library's substances.

The properties quantify over histories.  One kind of history no single-call harness reaches is "the same process has
already handled another substance that compares equal": `Substance.__eq__/__hash__` ignore `specific_activity`, so two
enzyme lots with the same name are one dictionary / cache key.  Before the first path of a worker process touches the
library, this module takes a short tour of the public API with such twin lots (same name, different specific activity),
in plain numbers.  On a correct library the tour leaves nothing behind that a later call could observe; a memoised
conversion factor, a stale module-level table or a cache keyed on substances is primed with the *other* lot's values
and the harness that follows then sees answers computed for the wrong lot (caches keep the first value they see).

The tour's own results are not judged.  Every step is wrapped: a step that raises is counted, not reported.
"""
from __future__ import annotations

from ..ref import LIB

_done = set()
STATS = {'steps': 0, 'raised': 0}


def _try(fn):
    STATS['steps'] += 1
    try:
        return fn()
    except Exception:  # noqa: BLE001
        STATS['raised'] += 1
        return None


def tour(env):
    """once per loaded library instance (per worker process and configuration)"""
    if id(env.pp) in _done:
        return
    _done.add(id(env.pp))
    S, C, Plate, Recipe, Unit = env.Substance, env.Container, env.Plate, env.Recipe, env.Unit
    water = S.liquid('water', 18.0153, 1.0)
    salt = S.solid('NaCl', 58.4428)
    for name, (kind, _mw, _rho, sa_text, _sa) in LIB.items():
        if kind != 'enzyme':
            continue
        value, unit = sa_text.split(' ')
        other = S.enzyme(name, f"{float(value) * 4} {unit}")       # the twin lot: four times as active per gram
        for a in ('g', 'mg', 'U', 'kU', 'uL', 'mL'):
            for b in ('g', 'mg', 'U', 'kU', 'uL', 'mL'):
                _try(lambda: Unit.convert_from(other, 3.0, a, b))
        _try(lambda: Unit.convert(other, '2 mg', 'U'))
        _try(lambda: Unit.convert(other, '2 U', 'ug'))
        src = _try(lambda: C('hist_src', initial_contents=[(water, '10 mL'), (salt, '100 mg'), (other, '50 mg')]))
        if src is None:
            continue
        dst = C('hist_dst', initial_contents=[(water, '1 mL')])
        for q in ('10 mg', '1 g', '100 uL', '5 U', '10 umol'):
            _try(lambda: C.transfer(src, dst, q))
        for u in ('U/mL', 'mg/mL', 'mg/g', 'U/g', '%w/w', '%w/v'):
            _try(lambda: src.get_concentration(other, u))
        for u in ('g', 'U', 'mL', 'mol'):
            _try(lambda: src.get_mass() if u == 'g' else src.get_volume('mL'))
        _try(lambda: src.fill_to(water, '20 g'))
        _try(lambda: src.fill_to(water, '15 mL'))
        _try(lambda: src.remove(other))
        for conc, kw in (('1 mg/g', {'total_quantity': '10 g'}), ('2 U/mL', {'total_quantity': '10 mL'}),
                         ('1 mg/mL', {'quantity': '3 mg'}), ('0.5 %w/w', {'total_quantity': '5 g'})):
            _try(lambda: C.create_solution(other, water, concentration=conc, **kw))
        _try(lambda: C.create_solution([salt, other], water, concentration=['0.1 M', '1 mg/g'], total_quantity='10 g'))
        _try(lambda: C.create_solution(other, water, quantity='3 mg', total_quantity='10 mL'))
        stock = _try(lambda: C.create_solution(other, water, concentration='5 mg/g', total_quantity='20 g'))
        if stock is not None:
            for conc, q in (('1 mg/g', '5 g'), ('1 mg/mL', '5 mL'), ('1000 U/mL', '2 mL'), ('1 mg/g', '1 mmol')):
                _try(lambda: C.create_solution_from(stock, other, conc, water, q))
            _try(lambda: stock.dilute(other, '1 mg/g', water))
        P = Plate('hist_plate', '500 uL', rows=1, columns=2)
        _try(lambda: Plate.transfer(src, P, '5 mg'))
        _try(lambda: P.get_substances())
        _try(lambda: P.get_volumes(other))
        _try(lambda: P.get_moles(other))

        def recipe():
            r = Recipe()
            r.uses(src, dst, P)
            r.start_stage('s')
            r.transfer(src, dst, '20 mg')
            r.transfer(src, P, '2 mg')
            r.end_stage('s')
            r.bake()
            for u in ('mg', 'U', 'uL'):
                r.get_substance_used(other, timeframe='s', unit=u, destinations=[dst, P])
                r.get_amount_remaining(src, 'all', u)
                r.get_container_flows(src, 'all', u)
        _try(recipe)
