"""C10 — reported volume, amounts and concentrations always agree with contents."""
from __future__ import annotations

from fractions import Fraction as Fr

from ..ref import Lib, PREFIX, split_unit
from .common import mk_container, set_volume

PROPERTY = 'C10'
BOUNDS = ("Inductive step of the bookkeeping invariant volume = round(sum of content volumes): from an arbitrary valid "
          "container / 2x2 plate state (every amount symbolic, 2-3 components incl. an enzyme) through each mutator - "
          "transfer (both sides, 4 unit kinds), fill_to (L/g/mol), remove (substance and class), dilute, "
          "create_solution (pure and container solvent), create_solution_from (pure and container solvent), plate "
          "transfer / remove / fill_to - the invariant holds for every returned object. Observers on a symbolic state: "
          "get_volume in all 10 volume prefixes, get_concentration in 16 unit spellings (M, m, all num/den pairs, "
          "percent forms; plus delta-model precision cells for mM/uM/nM/ug/L/umol/L on a concrete dilute container), Plate.get_volumes (total and per substance list), get_moles, get_volume, get_substances, "
          "with output rounding modelled as |reported - truth| <= 0.5*10^-digits. Lite rounding model.")
OUTSIDE = "IEEE rounding; histories are covered by induction from the single step, not enumerated; dataframe/HTML renderings."
ASSUMPTIONS = ["the inductive hypothesis: the pre-state satisfies the invariant (a counterexample from an unreachable "
               "pre-state would mean the invariant is too weak, not a finding - none occurs)",
               "instruction-text helpers are replaced by non-forking summaries (subject of C19)"]
EXPECT_OUTCOMES = ['ok']

MIX = ['water', 'NaCl', 'lipase']
CONC_UNITS = ['M', 'm', 'mol/L', 'mmol/mL', 'umol/uL', 'g/L', 'mg/mL', 'g/g', 'mg/g', 'mol/mol', 'mol/kg', 'L/L',
              'mL/L', 'g/mol', '%w/w', '%v/v', '%w/v', 'U/mL', 'U/g', 'kU/L']


def cells(tier, seed):
    out = []
    muts = ['transfer/uL', 'transfer/mg', 'transfer/mmol', 'transfer/U', 'fill_to/mL', 'fill_to/g', 'fill_to/mmol',
            'remove/water', 'remove/SOLID', 'remove/ENZYME', 'remove/LIQUID', 'dilute/M', 'dilute/mg_g',
            'create_solution/pure', 'create_solution/container', 'create_solution_from/pure',
            'create_solution_from/container', 'plate/transfer', 'plate/remove', 'plate/fill_to']
    for m in muts:
        out.append({'id': f"step/{m}", 'fn': 'h_step', 'round': 'lite', 'max_paths': 300, 'cost': 3, 'params': {'mut': m}})
    out.append({'id': "observers/get_volume", 'fn': 'h_get_volume', 'round': 'lite', 'max_paths': 50, 'params': {}})
    for cu in CONC_UNITS:
        for solute in (['NaCl', 'water', 'lipase'] if tier == 'thorough' else ['NaCl', 'lipase']):
            if cu.startswith(('U', 'kU')) != (solute == 'lipase') and tier == 'quick':
                continue
            out.append({'id': f"observers/get_concentration/{cu.replace('/', '_')}/{solute}", 'fn': 'h_get_concentration',
                        'round': 'lite', 'max_paths': 50, 'params': {'cu': cu, 'solute': solute}})
    out.append({'id': "observers/after-recipe-remove", 'fn': 'h_after_recipe', 'round': 'lite', 'max_paths': 50, 'params': {}})
    # reported precision of get_concentration in units with a small multiplier: delta rounding model on a concrete,
    # dilute container (only the rounding errors are symbolic -> linear arithmetic)
    for cu in ['mM', 'uM', 'nM', 'ug/L', 'umol/L', 'M']:
        out.append({'id': f"observers/get_concentration-precision/{cu.replace('/', '_')}", 'fn': 'h_conc_precision',
                    'round': 'delta', 'max_paths': 20, 'params': {'cu': cu}})
    for obs in ['get_volumes', 'get_volumes_subst', 'get_moles', 'get_volume', 'get_substances']:
        for unit in (['uL', 'mL'] if obs != 'get_moles' else ['umol', 'mmol']):
            out.append({'id': f"observers/plate/{obs}/{unit}", 'fn': 'h_plate_observers', 'round': 'lite',
                        'max_paths': 100, 'params': {'obs': obs, 'unit': unit}})
    return out


def _invariant(h, lib, label, c):
    sl = h.rs(2 * h.ulp) if c.contents else 0
    # remove() leaves the recomputed volume unrounded: the invariant is demanded up to one rounding
    h.require(f'{label}:volume==sum(contents)', h.eq(c.volume, lib.volume_storage(c.contents) if c.contents else 0, sl),
              detail=f"stored volume of {c.name} equals the summed volume of its contents")
    if c.max_volume != float('inf'):
        h.require(f'{label}:volume<=capacity', h.le(c.volume, c.max_volume, sl))


def _mk_plate(h, lib, name, shape, subs, lo=Fr(1, 100), hi=10**4):
    P = h.env.Plate(name, '1000 L', rows=shape[0], columns=shape[1])
    for r in range(shape[0]):
        for c in range(shape[1]):
            w = P.wells[r, c]
            for sname in subs:
                w.contents[lib[sname]] = h.real(f"{name}{r + 1}{c + 1}.{sname}", lo, hi)
            set_volume(h, lib, w)
    return P


def h_step(h):
    mut = h.p['mut']
    C, Plate, S = h.env.Container, h.env.Plate, h.env.Substance
    lib = Lib(h, MIX + ['DMSO'])
    water, salt, lip, dmso = lib['water'], lib['NaCl'], lib['lipase'], lib['DMSO']
    kind, _, arg = mut.partition('/')
    results = []
    try:
        if kind == 'transfer':
            src = mk_container(h, lib, 'src', MIX)
            cap = h.real('cap', 1, 10**8)
            dst = mk_container(h, lib, 'dst', ['water', 'DMSO'], cap=cap)
            h.assume(h.le(lib.volume_storage(dst.contents), cap))
            q = h.real('q', 0, 10**6)
            results = list(C.transfer(src, dst, f"{q} {arg}"))
        elif kind == 'fill_to':
            cap = h.real('cap', 1, 10**8)
            c = mk_container(h, lib, 'c', MIX, cap=cap)
            h.assume(h.le(lib.volume_storage(c.contents), cap))
            T = h.real('T', 0, 10**6)
            results = [c.fill_to(dmso, f"{T} {arg}")]
        elif kind == 'remove':
            c = mk_container(h, lib, 'c', MIX + ['DMSO'])
            what = {'water': water, 'SOLID': S.SOLID, 'ENZYME': S.ENZYME, 'LIQUID': S.LIQUID}[arg]
            results = [c.remove(what)]
        elif kind == 'dilute':
            cap = h.real('cap', 1, 10**9)
            c = mk_container(h, lib, 'c', MIX, cap=cap, lo=Fr(1, 100))
            h.assume(h.le(lib.volume_storage(c.contents), cap))
            ct = h.real('ct', Fr(1, 10**6), 100)
            results = [c.dilute(salt, f"{ct} {arg.replace('_', '/')}", dmso)]
        elif kind == 'create_solution':
            a = h.real('a', Fr(1, 1000), 5)
            T = h.real('T', Fr(1, 100), 10**4)
            if arg == 'pure':
                results = [C.create_solution(salt, water, concentration=f"{a} M", total_quantity=f"{T} mL")]
            else:
                solv = mk_container(h, lib, 'solv', ['water', 'DMSO'], lo=1)
                results = list(C.create_solution(salt, solv, concentration=f"{a} M", total_quantity=f"{T} mL"))
        elif kind == 'create_solution_from':
            stock = mk_container(h, lib, 'stock', ['water', 'NaCl'], lo=1)
            ct = h.real('ct', Fr(1, 1000), 20)
            T = h.real('T', Fr(1, 100), 10**4)
            if arg == 'pure':
                results = list(C.create_solution_from(stock, salt, f"{ct} M", dmso, f"{T} mL"))
            else:
                solv = mk_container(h, lib, 'solv', ['water', 'NaCl'], lo=1, tagp='solv')
                results = list(C.create_solution_from(stock, salt, f"{ct} M", solv, f"{T} mL"))
        elif kind == 'plate':
            P = _mk_plate(h, lib, 'P', (2, 2), ['water', 'NaCl'])
            if arg == 'transfer':
                src = mk_container(h, lib, 'src', MIX, lo=Fr(1, 100))
                q = h.real('q', 0, 10**4)
                h.assume(h.lt(q * PREFIX['u'] * 2, lib.total(src.contents, 'L')))
                s2, P2 = Plate.transfer(src, P[1, :], f"{q} uL")
                results = [s2] + list(P2.wells.flatten())
            elif arg == 'remove':
                P2 = P[:, 1].remove(water)
                results = list(P2.wells.flatten())
            else:
                T = h.real('T', 0, 10**6)
                P2 = P[2, :].fill_to(water, f"{T} uL")
                results = list(P2.wells.flatten())
    except ValueError:
        h.outcome = 'refused'
        return
    h.outcome = 'ok'
    for c in results:
        _invariant(h, lib, mut, c)


def h_get_volume(h):
    lib = Lib(h, MIX)
    c = mk_container(h, lib, 'c', MIX)
    true_L = lib.total(c.contents, 'L')
    for p in ['n', 'u', 'µ', 'm', 'c', 'd', '', 'da', 'k', 'M']:
        got = c.get_volume(p + 'L')
        # reported value is rounded to internal precision *in the output unit*
        h.require('get_volume', h.eq(got, true_L / PREFIX[p], h.rs(h.ulp * (1 + lib.vol_mult() / PREFIX[p]))), region=p + 'L')
    h.require('get_volume-default-unit', h.eq(c.get_volume(), true_L / PREFIX[h.env.config.volume_display_unit[:-1]],
                                               h.rs(2 * h.ulp)))
    h.outcome = 'ok'


def _conc_oracle(lib, c, solute, cu):
    """(numerator, denominator, scale): concentration in `cu` = numerator / denominator * scale, by definition."""
    if cu == 'M':
        n, d, scale = 'mol', 'L', Fr(1)
    elif cu == 'm':
        n, d, scale = 'mol', 'g', Fr(1000)
    elif cu.startswith('%'):
        n, d = {'%w/w': ('g', 'g'), '%v/v': ('L', 'L'), '%w/v': None}[cu] or (None, None)
        if cu == '%w/v':
            wn, wd = lib.h.env.config.default_weight_volume_units.split('/')
            pn, n = split_unit(wn)
            pd, d = split_unit(wd)
            scale = 100 * PREFIX[pd] / PREFIX[pn]
        else:
            scale = Fr(100)
    elif '/' not in cu and cu[-1] in 'Mm':
        # prefixed molar / molal shorthand: 'mM' = mmol/L, 'um' = umol/kg
        n, d = 'mol', ('L' if cu[-1] == 'M' else 'g')
        scale = (Fr(1) if cu[-1] == 'M' else Fr(1000)) / PREFIX[cu[:-1]]
    else:
        un, ud = cu.split('/')
        pn, n = split_unit(un)
        pd, d = split_unit(ud)
        scale = PREFIX[pd] / PREFIX[pn]
    num = lib.amount(solute, c.contents.get(solute, 0), n)
    den = lib.total(c.contents, d)
    return num, den, scale


def h_get_concentration(h):
    p = h.p
    lib = Lib(h, MIX)
    c = mk_container(h, lib, 'c', MIX, lo=Fr(1, 100))
    solute = lib[p['solute']]
    num, den, scale = _conc_oracle(lib, c, solute, p['cu'])
    got = c.get_concentration(solute, p['cu'])
    # got * den == num * scale  (cross-multiplied), rounding of the reported value: ulp * den
    h.require('get_concentration', h.eq(got * den, num * scale, h.rs(2 * h.ulp * den + 4 * h.ulp * scale * 10**4)),
              region=p['cu'], detail=f"get_concentration({p['solute']}, '{p['cu']}') equals amount/total by definition")
    h.outcome = 'ok'


def h_after_recipe(h):
    """observers answer from the object's own contents whatever happened to equal objects elsewhere (a recipe removing
    from a copy, a freshly built equal container)"""
    lib = Lib(h, ['water', 'NaCl'])
    C, Recipe = h.env.Container, h.env.Recipe
    a, b = h.real('a', 1, 10**5), h.real('b', 1, 10**3)
    stock = C('stock', initial_contents=[(lib['water'], f"{a} uL"), (lib['NaCl'], f"{b} mg")])
    rec = Recipe().uses(stock)
    rec.remove(stock, lib['NaCl'])
    res = rec.bake()
    twin = C('stock', initial_contents=[(lib['water'], f"{a} uL"), (lib['NaCl'], f"{b} mg")])
    h.outcome = 'ok'
    for label, c in (('declared', stock), ('twin', twin), ('result', res['stock'])):
        h.require('get_substances', h.true(c.get_substances() == set(c.contents)), region=label,
                  detail=f"{label}: get_substances() = {sorted(s.name for s in c.get_substances())}, contents = {sorted(s.name for s in c.contents)}")
        h.require('has_liquid', h.true(c.has_liquid() == any(s.is_liquid() for s in c.contents)), region=label)


def h_conc_precision(h):
    """the reported concentration equals the value computed from the contents rounded to the internal precision *in the
    requested unit*: |reported - truth| <= 10^-p"""
    cu = h.p['cu']
    lib = Lib(h, ['water', 'NaCl'])
    c = h.env.Container('c')
    c.contents[lib['water']] = h.const('55508434.3813')         # ~1 L
    c.contents[lib['NaCl']] = h.const('0.1234567891')            # ~123.46 nM
    set_volume(h, lib, c)
    num, den, scale = _conc_oracle(lib, c, lib['NaCl'], cu)
    got = c.get_concentration(lib['NaCl'], cu)
    h.outcome = 'ok'
    # one rounding of the result, plus the denominator (get_volume in the denominator's unit) being itself rounded to
    # the internal precision: relative error ulp / denominator
    truth = num * scale / den
    h.require('get_concentration:precision', h.eq(got, truth, h.ulp * 2 * (1 + truth / den)), region=cu,
              detail=f"get_concentration(NaCl, '{cu}') is off by more than the internal precision in that unit")


def h_plate_observers(h):
    p = h.p
    lib = Lib(h, MIX)
    P = _mk_plate(h, lib, 'P', (2, 2), MIX, lo=0, hi=10**4)
    obs, unit = p['obs'], p['unit']
    prefix, base = split_unit(unit)
    prec = h.env.config.precisions.get(unit, h.env.config.precisions['default'])
    half = Fr(1, 2 * 10**prec)
    water, salt, lip = lib['water'], lib['NaCl'], lib['lipase']
    # wells that lack one of the substances asked about (B2: no water, A2: no enzyme)
    del P.wells[1, 1].contents[water]
    del P.wells[0, 1].contents[lip]
    set_volume(h, lib, P.wells[1, 1])
    set_volume(h, lib, P.wells[0, 1])

    def amt(w, s, base):
        return lib.amount(s, w.contents[s], base) if s in w.contents else 0

    def close(got, truth, label, region=''):
        h.require(label, h.eq(got, truth, half + h.rs(h.ulp * 4 * 10**3)), region,
                  detail=f"{obs} in {unit}: |reported - computed from contents| <= 0.5e-{prec}")

    if obs == 'get_volumes':
        got = P.get_volumes(unit=unit)
        for r in range(2):
            for c in range(2):
                close(got[r, c], lib.total(P.wells[r, c].contents, 'L') / PREFIX[prefix], 'plate.get_volumes')
    elif obs == 'get_volumes_subst':
        for order in ([water, lip], [lip, water]):
            got = P.get_volumes(substance=order, unit=unit)
            for r in range(2):
                for c in range(2):
                    w = P.wells[r, c]
                    truth = (amt(w, water, 'L') + amt(w, lip, 'L')) / PREFIX[prefix]
                    close(got[r, c], truth, 'plate.get_volumes(substances)')
        gots = P[:, 2].get_volumes(substance=[water, lip, salt], unit=unit)
        for r in range(2):
            w = P.wells[r, 1]
            close(gots[r, 0], (amt(w, water, 'L') + amt(w, lip, 'L') + amt(w, salt, 'L')) / PREFIX[prefix],
                  'slice.get_volumes(substances)')
        got1 = P[1, :].get_volumes(substance=salt, unit=unit)
        for c in range(2):
            close(got1[0, c], lib.amount(salt, P.wells[0, c].contents[salt], 'L') / PREFIX[prefix],
                  'slice.get_volumes(substance)')
    elif obs == 'get_moles':
        got = P.get_moles([salt, water, lip], unit=unit)
        for r in range(2):
            for c in range(2):
                w = P.wells[r, c]
                truth = (amt(w, salt, 'mol') + amt(w, water, 'mol')) / PREFIX[prefix]
                close(got[r, c], truth, 'plate.get_moles')
        got2 = P.get_moles([water, salt], unit=unit)
        for r in range(2):
            for c in range(2):
                w = P.wells[r, c]
                close(got2[r, c], (amt(w, salt, 'mol') + amt(w, water, 'mol')) / PREFIX[prefix], 'plate.get_moles')
    elif obs == 'get_volume':
        got = P.get_volume(unit)
        # the sum of the four rounded per-well values
        truth = 0
        for r in range(2):
            for c in range(2):
                truth = truth + lib.total(P.wells[r, c].contents, 'L') / PREFIX[prefix]
        h.require('plate.get_volume', h.eq(got, truth, 4 * half + h.rs(h.ulp * 10**4)))
    elif obs == 'get_substances':
        h.require('plate.get_substances', h.true(P.get_substances() == {water, salt, lip}))
        h.require('slice.get_substances', h.true(P[1, 1].get_substances() == {water, salt, lip}))
        Q = h.env.Plate('Q', '1 mL', rows=1, columns=2)
        h.require('empty-plate.get_substances', h.true(Q.get_substances() == set()))
    h.outcome = 'ok'
