"""C03 — impossible states are never produced; infeasible requests raise ValueError, feasible ones are accepted."""
from __future__ import annotations

from fractions import Fraction as Fr

from ..ref import Lib, PREFIX, split_unit
from .common import mk_container, set_volume

PROPERTY = 'C03'
BOUNDS = ("One operation from an arbitrary valid pre-state, NO feasibility precondition (requests may be negative, zero, "
          "at or beyond every limit): Container(...) with two initial quantities and a symbolic capacity; "
          "Container.transfer in L/g/mol/U (2 prefixes each) from 1-3 component sources into a destination with "
          "symbolic contents and symbolic capacity; Plate.transfer container->2 wells with symbolic capacity; fill_to "
          "in L/g/mol with symbolic target and capacity; dilute of binary NaCl/water and DMSO/water mixtures in M and "
          "g/L; create_solution (M+total volume, g/g+total mass, quantity+total) and create_solution_from (M, mL) with "
          "symbolic values of either sign; a recipe transfer+fill_to through bake, a transfer / fill_to applied to the result of remove(), and recipes drawing twice from one stock (transfer then create_solution with the stock as solvent / transfer). Amounts in [0, 1e6] storage units, "
          "requests in [-1e6, 1e6]. Lite rounding model for all cells, plus delta-model cells (functionally "
          "consistent rounding errors) for the exact-capacity requests: capacity and amount given by the same number.")
OUTSIDE = ("IEEE rounding; dilute outside binary mixtures and fill_to with enzyme bystanders (decided under C11); the "
           "general create_solution feasibility region (C05); operations on plates other than transfer (C07).")
ASSUMPTIONS = ["pre-states satisfy the bookkeeping invariant and volume <= capacity",
               "instruction-text helpers are replaced by non-forking summaries (subject of C19)"]
EXPECT_OUTCOMES = ['ok', 'refused']


def cells(tier, seed):
    out = []
    units = ['uL', 'mL', 'mg', 'g', 'umol', 'mmol', 'U', 'kU'] if tier == 'thorough' else ['uL', 'mg', 'mmol', 'U']
    mixes = [['water', 'NaCl', 'lipase'], ['NaCl', 'lipase'], ['water'], ['DMSO', 'Na2SO4']]
    for unit in units:
        for mi, mix in enumerate(mixes if tier == 'thorough' else mixes[:3]):
            if unit.endswith('U') and 'lipase' not in mix and tier == 'quick' and mi != 2:
                continue
            out.append({'id': f"transfer/{unit}/m{mi}", 'fn': 'h_transfer', 'round': 'lite', 'max_paths': 300, 'cost': 4,
                        'params': {'unit': unit, 'src': mix, 'dst': ['water', 'NaCl'] if mi == 0 else ['water']}})
    for ui, (u1, u2) in enumerate([('mL', 'g'), ('mmol', 'mg'), ('uL', 'U'), ('g', 'kU')]):
        if tier == 'quick' and ui > 2:
            continue
        out.append({'id': f"ctor/{u1}-{u2}", 'fn': 'h_ctor', 'round': 'lite', 'max_paths': 200, 'cost': 2,
                    'params': {'u1': u1, 'u2': u2, 's1': 'water', 's2': 'lipase' if u2.endswith('U') else 'NaCl'}})
    for unit in (['mL', 'g', 'mmol'] if tier == 'quick' else ['uL', 'mL', 'L', 'mg', 'g', 'umol', 'mmol', 'mol']):
        for solvent in (['water'] if tier == 'quick' else ['water', 'DMSO']):
            out.append({'id': f"fill_to/{unit}/{solvent}", 'fn': 'h_fill_to', 'round': 'lite', 'max_paths': 200,
                        'params': {'unit': unit, 'solvent': solvent, 'mix': ['water', 'NaCl']}})
    for cu in ['M', 'g/L']:
        for solute, solvent in [('NaCl', 'water')] + ([('DMSO', 'water')] if tier == 'thorough' else []):
            out.append({'id': f"dilute/{cu.replace('/', '_')}/{solute}", 'fn': 'h_dilute', 'round': 'lite', 'max_paths': 200,
                        'params': {'cu': cu, 'solute': solute, 'solvent': solvent}})
        # a third component that takes up volume (an enzyme, stored in activity units)
        out.append({'id': f"dilute/{cu.replace('/', '_')}/NaCl+lipase", 'fn': 'h_dilute', 'round': 'lite', 'max_paths': 200,
                    'params': {'cu': cu, 'solute': 'NaCl', 'solvent': 'water', 'bystander': 'lipase'}})
    for form in ['M+total_mL', 'g_g+total_g', 'qty_g+total_mL']:
        out.append({'id': f"create_solution/{form}", 'fn': 'h_solution', 'round': 'lite', 'max_paths': 200,
                    'params': {'form': form}})
    out.append({'id': "create_solution_from/M", 'fn': 'h_solution_from', 'round': 'lite', 'max_paths': 300, 'cost': 3,
                'params': {}})
    for unit in (['uL', 'mg'] if tier == 'quick' else ['uL', 'mg', 'mmol', 'U']):
        out.append({'id': f"plate/c->row/{unit}", 'fn': 'h_plate', 'round': 'lite', 'max_paths': 400, 'cost': 6,
                    'params': {'unit': unit}})
    out.append({'id': "bake/create_container+transfer", 'fn': 'h_bake_created', 'round': 'lite', 'max_paths': 300, 'cost': 5,
                'params': {}})
    out.append({'id': "bake/transfer+fill_to", 'fn': 'h_bake', 'round': 'lite', 'max_paths': 300, 'cost': 5, 'params': {}})
    for second in ['solution', 'transfer']:
        out.append({'id': f"bake/draw+{second}", 'fn': 'h_bake_draw', 'round': 'lite', 'max_paths': 300, 'cost': 5,
                    'params': {'second': second}})
    for unit in ['uL', 'mg']:
        out.append({'id': f"history/remove+transfer/{unit}", 'fn': 'h_after_remove', 'round': 'lite', 'max_paths': 300, 'cost': 3,
                    'params': {'unit': unit}})
    # exact-capacity requests under the delta rounding model
    # (transfer is decided in the lite model only: moving the whole content converts volume -> moles -> volume, and
    #  under arbitrary bounded rounding errors that round trip can exceed the capacity by one unit in the last
    #  place for inputs with more than internal_precision decimals - a spurious counterexample of the delta model)
    for op in ['ctor', 'transfer', 'fill_to']:
        for unit in (['mL'] if tier == 'quick' else ['uL', 'mL', 'L']):
            for model in (['lite'] if op == 'transfer' else ['lite', 'delta']):
                out.append({'id': f"exact-capacity/{op}/{unit}/{model}", 'fn': 'h_exact', 'round': model,
                            'max_paths': 100, 'params': {'op': op, 'unit': unit}})
    return out


def _valid_state(h, label, c, region=''):
    """every amount >= 0, 0 <= volume <= capacity"""
    sl = h.rs(2 * h.ulp)
    for s, a in c.contents.items():
        h.require(f'{label}:amount>=0', h.ge(a, 0, sl), region, detail=f"{c.name} holds a negative amount of {s.name}")
    h.require(f'{label}:volume>=0', h.ge(c.volume, 0, sl), region)
    if c.max_volume != float('inf'):
        h.require(f'{label}:volume<=capacity', h.le(c.volume, c.max_volume, sl), region,
                  detail=f"{c.name} holds more than its capacity")


def _classify(h, e, op):
    if isinstance(e, ValueError):
        h.outcome = 'refused'
        return True
    h.outcome = 'crashed:' + type(e).__name__
    h.fail(f'{op}:refusal-is-ValueError', f"{op} raised {type(e).__name__}: {e}", region=type(e).__name__)
    return False


def _transfer_predicates(h, lib, src, dst, cap, qb, base):
    """(feasible, infeasible) for moving qb (base units) from src to dst with capacity cap (storage units)."""
    held = lib.total(src.contents, base)
    sv = lib.volume_storage(src.contents)
    dv = lib.volume_storage(dst.contents)
    sl = h.rs(4 * h.ulp)
    if cap is None:
        fits = h.true(True)
        overflow = h.true(False)
    else:
        # dst_vol + src_vol * qb/held <= cap, cross-multiplied by held >= 0
        fits = h.le(dv * held + sv * qb, cap * held)
        overflow = h.gt(dv * held + sv * qb, cap * held)
    feasible = h.all_of([h.ge(qb, 0, sl), h.le(qb, held, sl), fits])
    infeasible = h.any_of([h.lt(qb, 0), h.gt(qb, held), h.eq(held, 0), overflow])
    return feasible, infeasible


def h_transfer(h):
    p = h.p
    C = h.env.Container
    lib = Lib(h, set(p['src']) | set(p['dst']))
    prefix, base = split_unit(p['unit'])
    src = mk_container(h, lib, 'src', p['src'])
    cap = h.real('cap', Fr(1, 1000), 10**7)
    dst = mk_container(h, lib, 'dst', p['dst'], cap=cap)
    h.assume(h.le(lib.volume_storage(dst.contents), cap))
    q = h.real('q', -10**6, 10**6)
    qb = q * PREFIX[prefix]
    feasible, infeasible = _transfer_predicates(h, lib, src, dst, cap, qb, base)
    try:
        s2, d2 = C.transfer(src, dst, f"{q} {p['unit']}")
    except Exception as e:  # noqa: BLE001
        if _classify(h, e, 'transfer'):
            h.require('transfer:refusal-justified', infeasible,
                      detail="a transfer that fits (0 <= q <= held, destination has room) was refused")
        return
    h.outcome = 'ok'
    h.require('transfer:acceptance-justified', feasible,
              detail="a transfer that cannot be carried out (negative, more than held, or overflowing) was performed")
    _valid_state(h, 'transfer:src', s2)
    _valid_state(h, 'transfer:dst', d2)


def h_ctor(h):
    p = h.p
    C = h.env.Container
    lib = Lib(h, [p['s1'], p['s2']])
    cap = h.real('cap_mL', -10, 10**5)
    q1 = h.real('q1', -1000, 10**5)
    q2 = h.real('q2', -1000, 10**5)
    s1, s2 = lib[p['s1']], lib[p['s2']]
    v1 = lib.amount(s1, lib.storage_from(s1, q1, p['u1']), 'L') / lib.vol_mult()
    v2 = lib.amount(s2, lib.storage_from(s2, q2, p['u2']), 'L') / lib.vol_mult()
    cap_st = cap * PREFIX['m'] / lib.vol_mult()
    try:
        c = C('c', f"{cap} mL", [(s1, f"{q1} {p['u1']}"), (s2, f"{q2} {p['u2']}")])
    except Exception as e:  # noqa: BLE001
        if _classify(h, e, 'ctor'):
            h.require('ctor:refusal-justified',
                      h.any_of([h.le(cap, 0), h.lt(q1, 0), h.lt(q2, 0), h.gt(v1 + v2, cap_st)]),
                      detail="construction with non-negative quantities that fit the capacity was refused")
        return
    h.outcome = 'ok'
    sl = h.rs(4 * h.ulp)
    h.require('ctor:acceptance-justified',
              h.all_of([h.gt(cap, 0), h.ge(q1, 0, sl), h.ge(q2, 0, sl), h.le(v1 + v2, cap_st, sl)]))
    _valid_state(h, 'ctor', c)


def h_fill_to(h):
    p = h.p
    lib = Lib(h, set(p['mix']) | {p['solvent']})
    prefix, base = split_unit(p['unit'])
    cap = h.real('cap', Fr(1, 1000), 10**7)
    c = mk_container(h, lib, 'c', p['mix'], cap=cap)
    h.assume(h.le(lib.volume_storage(c.contents), cap))
    T = h.real('T', -10, 10**6)
    Tb = T * PREFIX[prefix]
    cur = lib.total(c.contents, base)
    solvent = lib[p['solvent']]
    # volume of solvent needed for (Tb - cur) base units
    need_stored = lib.storage_from(solvent, Tb - cur, base)
    newvol = lib.volume_storage(c.contents) + lib.amount(solvent, need_stored, 'L') / lib.vol_mult()
    sl = h.rs(4 * h.ulp)
    try:
        r = c.fill_to(solvent, f"{T} {p['unit']}")
    except Exception as e:  # noqa: BLE001
        if _classify(h, e, 'fill_to'):
            h.require('fill_to:refusal-justified', h.any_of([h.le(T, 0), h.lt(Tb, cur), h.gt(newvol, cap)]),
                      detail="a fill target at or above the current quantity that fits the capacity was refused")
        return
    h.outcome = 'ok'
    h.require('fill_to:acceptance-justified', h.all_of([h.gt(T, 0), h.ge(Tb, cur, sl), h.le(newvol, cap, sl)]),
              detail="a fill target below the current quantity (or overflowing the capacity) was accepted")
    _valid_state(h, 'fill_to', r)


def h_dilute(h):
    p = h.p
    lib = Lib(h, [p['solute'], p['solvent']] + ([p['bystander']] if p.get('bystander') else []))
    solute, solvent = lib[p['solute']], lib[p['solvent']]
    cap = h.real('cap', Fr(1, 1000), 10**8)
    C = h.env.Container
    c = C('c', f"{cap} {h.env.config.volume_storage_unit}")
    n_s = h.real('c.solute', Fr(1, 100), 10**5)
    n_w = h.real('c.solvent', 1, 10**6)
    c.contents[solute] = n_s
    c.contents[solvent] = n_w
    if p.get('bystander'):
        c.contents[lib[p['bystander']]] = h.real('c.bystander', 1, 10**5)
    set_volume(h, lib, c)
    h.assume(h.ge(n_s * 100, n_w))           # mole fraction >= ~1e-2: the 1e-6 ratio tolerance stays < 1e-4 relative
    h.assume(h.le(lib.volume_storage(c.contents), cap))
    ct = h.real('ct', Fr(-1), 100)
    num_base = 'mol' if p['cu'] == 'M' else 'g'
    # current concentration = num / V(L); target reached when V_new = num / ct
    num = lib.amount(solute, n_s, num_base)
    V = lib.total(c.contents, 'L')
    band = Fr(1, 1000)
    try:
        r = c.dilute(solute, f"{ct} {p['cu']}", solvent)
    except Exception as e:  # noqa: BLE001
        if _classify(h, e, 'dilute'):
            # justified if the target is not (clearly) below the current concentration, or the result would not fit
            h.require('dilute:refusal-justified',
                      h.any_of([h.le(ct, 0), h.ge(ct * V, num * (1 - band)),
                                h.ge(num, ct * cap * lib.vol_mult() * (1 - band))]),
                      detail="a dilution to a lower positive concentration that fits the capacity was refused")
        return
    h.outcome = 'ok'
    h.require('dilute:acceptance-justified', h.all_of([h.gt(ct, 0), h.le(ct * V, num * (1 + band))]),
              detail="a target concentration above the current one was accepted")
    _valid_state(h, 'dilute', r)


def h_solution(h):
    p = h.p
    C = h.env.Container
    lib = Lib(h, ['NaCl', 'water'])
    salt, water = lib['NaCl'], lib['water']
    form = p['form']
    a = h.real('a', -1, 10**3)
    T = h.real('T', -10, 10**4)
    mw, rho = Fr('58.4428'), Fr(str(h.env.config.default_solid_density))
    if form == 'M+total_mL':
        # n = a*T/1000 mol; its volume a*T/1000*mw/rho mL must leave room for solvent
        infeasible = h.any_of([h.le(a, 0), h.le(T, 0), h.ge(a * mw / rho / 1000, 1)])
        feasible = h.all_of([h.gt(a, 0), h.gt(T, 0), h.lt(a * mw / rho / 1000, 1)])
        kw = dict(concentration=f"{a} M", total_quantity=f"{T} mL")
    elif form == 'g_g+total_g':
        infeasible = h.any_of([h.le(a, 0), h.le(T, 0), h.ge(a, 1)])
        feasible = h.all_of([h.gt(a, 0), h.gt(T, 0), h.lt(a, 1)])
        kw = dict(concentration=f"{a} g/g", total_quantity=f"{T} g")
    else:
        infeasible = h.any_of([h.le(a, 0), h.le(T, 0), h.ge(a / rho, T)])
        feasible = h.all_of([h.gt(a, 0), h.gt(T, 0), h.lt(a / rho, T)])
        kw = dict(quantity=f"{a} g", total_quantity=f"{T} mL")
    try:
        r = C.create_solution(salt, water, **kw)
    except Exception as e:  # noqa: BLE001
        if _classify(h, e, 'create_solution'):
            h.require('create_solution:refusal-justified', infeasible,
                      detail="a solution with a unique positive composition was refused")
        return
    h.outcome = 'ok'
    h.require('create_solution:acceptance-justified', feasible)
    _valid_state(h, 'create_solution', r)
    for s, x in r.contents.items():
        h.require('create_solution:amount>0', h.gt(x, 0), detail=f"{s.name} must be present in a positive amount")


def h_solution_from(h):
    C = h.env.Container
    lib = Lib(h, ['NaCl', 'water'])
    salt, water = lib['NaCl'], lib['water']
    stock = mk_container(h, lib, 'stock', ['NaCl', 'water'], lo=Fr(1, 100))
    ct = h.real('ct', -1, 50)
    T = h.real('T', -10, 10**5)
    n = lib.amount(salt, stock.contents[salt], 'mol')
    V = lib.total(stock.contents, 'L')
    # needed stock volume x (L) = T/1000 * ct / (n/V)  ->  x*n = T/1000*ct*V ; feasible iff 0<=ct<=n/V, x<=V
    try:
        res = C.create_solution_from(stock, salt, f"{ct} M", water, f"{T} mL")
    except Exception as e:  # noqa: BLE001
        if _classify(h, e, 'create_solution_from'):
            h.require('create_solution_from:refusal-justified',
                      h.any_of([h.le(T, 0), h.lt(ct, 0), h.gt(ct * V, n), h.gt(T / 1000 * ct, n)]),
                      detail="a dilution the stock can deliver was refused")
        return
    h.outcome = 'ok'
    sl = h.rs(Fr(1, 10**6))
    h.require('create_solution_from:acceptance-justified',
              h.all_of([h.gt(T, 0), h.ge(ct, 0, sl), h.le(ct * V, n, sl * 10**3), h.le(T / 1000 * ct, n, sl)]))
    for c in res:
        _valid_state(h, 'create_solution_from', c)


def h_plate(h):
    p = h.p
    Plate = h.env.Plate
    mix = ['water', 'NaCl', 'lipase']
    lib = Lib(h, mix)
    prefix, base = split_unit(p['unit'])
    src = mk_container(h, lib, 'src', mix)
    cap = h.real('cap', Fr(1, 1000), 10**7)
    P = Plate('P', f"{cap} {h.env.config.volume_storage_unit}", rows=1, columns=2)
    for c in range(2):
        P.wells[0, c].contents[lib['water']] = h.real(f"P1{c + 1}.water", 0, 10**6)
        set_volume(h, lib, P.wells[0, c])
        h.assume(h.le(P.wells[0, c].volume, cap))
    q = h.real('q', -10**6, 10**6)
    qb = q * PREFIX[prefix]
    held = lib.total(src.contents, base)
    sv = lib.volume_storage(src.contents)
    try:
        s2, P2 = Plate.transfer(src, P[1, :], f"{q} {p['unit']}")
    except Exception as e:  # noqa: BLE001
        if _classify(h, e, 'plate-transfer'):
            over = [h.gt(lib.volume_storage(P.wells[0, c].contents) * held + sv * qb, cap * held) for c in range(2)]
            h.require('plate-transfer:refusal-justified',
                      h.any_of([h.lt(qb, 0), h.gt(2 * qb, held), h.eq(held, 0)] + over),
                      detail="a container->2 wells transfer that fits was refused")
        return
    h.outcome = 'ok'
    sl = h.rs(4 * h.ulp)
    fits = [h.le(lib.volume_storage(P.wells[0, c].contents) * held + sv * qb, cap * held) for c in range(2)]
    h.require('plate-transfer:acceptance-justified', h.all_of([h.ge(qb, 0, sl), h.le(2 * qb, held, sl)] + fits))
    _valid_state(h, 'plate-transfer:src', s2)
    for c in range(2):
        _valid_state(h, 'plate-transfer:well', P2.wells[0, c])


def h_bake(h):
    C, Recipe = h.env.Container, h.env.Recipe
    lib = Lib(h, ['water', 'NaCl'])
    water = lib['water']
    A = mk_container(h, lib, 'A', ['water', 'NaCl'])
    cap = h.real('cap', Fr(1, 1000), 10**7)
    B = mk_container(h, lib, 'B', ['water'], cap=cap)
    h.assume(h.le(lib.volume_storage(B.contents), cap))
    q = h.real('q', -10**4, 10**6)
    T = h.real('T', -10, 10**6)
    r = Recipe().uses(A, B)
    r.transfer(A, B, f"{q} uL")
    r.fill_to(B, water, f"{T} uL")
    qb = q * PREFIX['u']
    feas1, infeas1 = _transfer_predicates(h, lib, A, B, cap, qb, 'L')
    # state of B after step 1 (reference): volume = vB + q (storage uL)
    vB1 = lib.volume_storage(B.contents) + q
    try:
        res = r.bake()
    except Exception as e:  # noqa: BLE001
        if _classify(h, e, 'bake'):
            h.require('bake:refusal-justified',
                      infeas1 | h.any_of([h.le(T, 0), h.lt(T, vB1), h.gt(T, cap)]),
                      detail="a recipe whose steps all fit was refused at bake")
        return
    h.outcome = 'ok'
    sl = h.rs(8 * h.ulp)
    h.require('bake:acceptance-justified', feas1 & h.all_of([h.gt(T, 0), h.ge(T, vB1, sl), h.le(T, cap, sl)]))
    for c in res.values():
        _valid_state(h, 'bake', c)


def h_after_remove(h):
    """the state a remove() returns is the pre-state of the next request: a transfer out of it is feasible iff it fits
    into what is really left, and a fill_to into the freed space is accepted"""
    p = h.p
    C = h.env.Container
    lib = Lib(h, ['water', 'NaCl', 'DMSO'])
    prefix, base = split_unit(p['unit'])
    cap = h.real('cap', 1, 10**7)
    c0 = mk_container(h, lib, 'c', ['water', 'NaCl', 'DMSO'], cap=cap, lo=Fr(1, 10))
    h.assume(h.le(lib.volume_storage(c0.contents), cap))
    src = c0.remove(lib['water'])
    dst = C('dst')
    q = h.real('q', 0, 10**6)
    qb = q * PREFIX[prefix]
    feasible, infeasible = _transfer_predicates(h, lib, src, dst, None, qb, base)
    try:
        s2, d2 = C.transfer(src, dst, f"{q} {p['unit']}")
    except Exception as e:  # noqa: BLE001
        if _classify(h, e, 'transfer-after-remove'):
            h.require('transfer-after-remove:refusal-justified', infeasible,
                      detail="a transfer that fits into what remove() left was refused")
        return
    h.outcome = 'ok'
    h.require('transfer-after-remove:acceptance-justified', feasible,
              detail="more than what remove() left was transferred")
    _valid_state(h, 'transfer-after-remove:src', s2)
    # refill the freed space exactly to the capacity: must be accepted
    try:
        r = src.fill_to(lib['DMSO'], f"{cap} {h.env.config.volume_storage_unit}")
    except ValueError as e:
        h.fail('fill-after-remove:accepted', f"filling the space freed by remove() up to the capacity was refused: {e}")
        return
    _valid_state(h, 'fill-after-remove', r)


def h_bake_created(h):
    """a container created by a recipe step has the declared capacity: its initial contents and every later step into it
    are feasible iff they fit"""
    C, Recipe = h.env.Container, h.env.Recipe
    lib = Lib(h, ['water', 'NaCl'])
    water = lib['water']
    A = mk_container(h, lib, 'A', ['water'], lo=10, hi=10**6)
    vA = lib.volume_storage(A.contents)               # uL
    cap = h.real('cap', 1, 10**6)
    q0 = h.real('q0', 1, 10**6)
    q = h.real('q', 0, 10**5)
    r = Recipe().uses(A)
    sl = h.rs(8 * h.ulp)
    try:
        made = r.create_container('C', f"{cap} uL", [(water, f"{q0} uL")])
        r.transfer(A, made, f"{q} uL")
        res = r.bake()
    except Exception as e:  # noqa: BLE001
        if _classify(h, e, 'bake'):
            h.require('bake:refusal-justified', h.any_of([h.gt(q0, cap), h.gt(q, vA), h.gt(q0 + q, cap)]),
                      detail="the initial contents and the transfer both fit into the created container, yet it was refused")
        return
    h.outcome = 'ok'
    h.require('bake:acceptance-justified', h.all_of([h.le(q0, cap, sl), h.le(q, vA, sl), h.le(q0 + q, cap, sl)]),
              detail="a container created with a capacity holds more than that after bake")
    for c in res.values():
        _valid_state(h, 'bake', c)
    mv = res['C'].max_volume
    if isinstance(mv, float) and mv == float('inf'):
        h.fail('bake:created-capacity', "the created container has unlimited capacity after bake")
    else:
        h.require('bake:created-capacity', h.eq(mv, cap, sl), detail="capacity of the created container after bake")


def h_bake_draw(h):
    """a recipe draws from a stock of pure water twice: transfer q out, then a step that needs w more.  The second
    request is feasible iff it fits into what the first one left."""
    C, Recipe = h.env.Container, h.env.Recipe
    lib = Lib(h, ['water', 'NaCl'])
    water, salt = lib['water'], lib['NaCl']
    A = mk_container(h, lib, 'A', ['water'], lo=10, hi=10**6)
    vA = lib.volume_storage(A.contents)               # uL
    B = C('B')
    q = h.real('q', 0, 10**5)
    T = h.real('T', 1, 10**5)
    r = Recipe().uses(A, B)
    r.transfer(A, B, f"{q} uL")
    second = h.p['second']
    if second == 'solution':
        # T uL of 0.1 M NaCl with A as solvent: the salt takes 0.1*T*1e-6 mol * 58.4428 g/mol / 1 g/mL
        r.create_solution(salt, A, name='S', concentration='0.1 M', total_quantity=f"{T} uL")
        need = T - T * Fr(1, 10) * Fr('58.4428') / 1000
    else:
        r.transfer(A, B, f"{T} uL")
        need = T
    try:
        res = r.bake()
    except Exception as e:  # noqa: BLE001
        if _classify(h, e, 'bake'):
            h.require('bake:refusal-justified', h.any_of([h.gt(q, vA), h.gt(q + need, vA)]),
                      detail="both draws fit into the stock, yet bake refused")
        return
    h.outcome = 'ok'
    sl = h.rs(8 * h.ulp)
    h.require('bake:acceptance-justified', h.le(q + need, vA, sl),
              detail="the recipe drew more from the stock than it held and bake did not raise")
    for c in res.values():
        _valid_state(h, 'bake', c)
    taken = vA - lib.volume_storage(res['A'].contents)
    h.require('bake:stock-depleted-by-both-draws', h.eq(taken, q + need, sl),
              detail="what is left in the stock = what it held - both draws")


def h_exact(h):
    """Capacity and amount given by the same number: the request fits exactly and must be accepted."""
    p = h.p
    C = h.env.Container
    lib = Lib(h, ['water', 'NaCl'])
    water = lib['water']
    unit = p['unit']
    v = h.real('v', Fr(1, 100), 10**5)
    op = p['op']
    try:
        if op == 'ctor':
            r = C('c', f"{v} {unit}", [(water, f"{v} {unit}")])
        elif op == 'transfer':
            src = C('src', initial_contents=[(water, f"{v} {unit}")])
            dst = C('dst', f"{v} {unit}")
            _, r = C.transfer(src, dst, f"{v} {unit}")
        else:
            c = C('c', f"{v} {unit}")
            r = c.fill_to(water, f"{v} {unit}")
    except Exception as e:  # noqa: BLE001
        h.outcome = 'refused' if isinstance(e, ValueError) else 'crashed:' + type(e).__name__
        h.fail(f'exact-capacity:{op}:accepted', f"filling exactly to capacity raised {type(e).__name__}: {e}")
        return
    h.outcome = 'ok'
    _valid_state(h, f'exact-capacity:{op}', r)
