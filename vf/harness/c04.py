"""C04 — values are immutable: operations never modify their arguments, even on failure."""
from __future__ import annotations

from fractions import Fraction as Fr

from ..ref import Lib, PREFIX
from .common import mk_container, set_volume

PROPERTY = 'C04'
BOUNDS = ("Every public operation with every argument position fingerprinted (name, contents keys and value terms, "
          "volume, capacity, instructions; every well of a plate; for a slice its selection, the identity of the plate it "
          "points to and the wells it yields) before and after, on every path including the raising ones: Container "
          "constructor, transfer (container/slice/plate sources), remove, dilute, fill_to, create_solution (solute list, "
          "container solvent), create_solution_from (source, solvent container); Plate.transfer in 6 pairing forms "
          "incl. same plate, Plate/slice remove and fill_to, plate observers; Recipe.uses, all step adders, bake and "
          "the three tracking queries. Amounts, quantities and capacities are symbolic so the solver decides where a "
          "multi-well transfer overflows (2 wells, per-well fill levels) and which bake step is infeasible. After each "
          "call a second operation is applied to every returned object and all earlier fingerprints are compared again "
          "(aliasing, depth 2). Lite rounding model.")
OUTSIDE = ("IEEE rounding; plates larger than 2x2; aliasing chains deeper than 2; the experimental_conditions dict; "
           "pandas/HTML renderings.")
ASSUMPTIONS = ["Recipe._rounding_noise (the library's own bound on float rounding noise, the tolerance of get_substance_used's net-decrease test) is 0 in the real-number model, where roundings at internal precision are the identity; native companion runs use the real one",
               "instruction-text helpers are replaced by non-forking summaries (subject of C19)"]
EXPECT_OUTCOMES = ['ok', 'raised']

SCENARIOS = ['ctor', 'container:observers', 'transfer:c2c', 'transfer:slice2c', 'transfer:plate2c', 'remove', 'dilute', 'fill_to',
             'create_solution:pure', 'create_solution:container', 'create_solution_from:pure',
             'create_solution_from:container', 'plate:c2slice', 'plate:c2plate', 'plate:slice2slice', 'plate:well2slice',
             'plate:slice2well', 'plate:same', 'plate:remove', 'plate:fill_to', 'slice:remove', 'slice:fill_to',
             'plate:observers', 'recipe:transfer+fill', 'recipe:solution+from', 'recipe:plate', 'recipe:dest-slice', 'recipe:remove-first']


def cells(tier, seed):
    return [{'id': s, 'fn': 'h_scenario', 'round': 'lite', 'max_paths': 400, 'cost': 3, 'gens': 56,
             'params': {'scenario': s}} for s in SCENARIOS]


# ---- fingerprints -------------------------------------------------------------------------------------------------
def _k(v):
    f = getattr(v, 'f', None)
    if f is not None:
        return ('sym', f)
    return ('num', float(v))


def fp_container(c):
    return ('C', c.name, tuple((s.name, _k(v)) for s, v in c.contents.items()), _k(c.volume), _k(c.max_volume), c.instructions)


def fp_plate(p):
    return ('P', p.name, p.n_rows, p.n_columns, tuple(p.row_names), tuple(p.column_names), _k(p.max_volume_per_well),
            tuple(fp_container(w) for w in p.wells.flatten()), id(p.wells))


def fp_slice(s):
    return ('S', repr(s.slices), id(s.plate), fp_plate(s.plate), tuple(fp_container(w) for w in s.get().flatten()))


def fp(x):
    env_types = type(x).__name__
    if env_types == 'Container':
        return fp_container(x)
    if env_types == 'Plate':
        return fp_plate(x)
    if env_types == 'PlateSlicer':
        return fp_slice(x)
    if env_types == 'Substance':
        return ('X', x.name, x._type, _k(x.mol_weight) if x.mol_weight is not None else None, _k(x.density),
                None if x.specific_activity is None else _k(x.specific_activity))
    if isinstance(x, (list, tuple)):
        return tuple(fp(e) for e in x)
    if isinstance(x, dict):
        return tuple((k, fp(v)) for k, v in x.items())
    if isinstance(x, (str, int, float, type(None))):
        return ('v', x if not hasattr(x, 'f') else _k(x))
    return ('?', repr(type(x)))


class Watch:
    def __init__(self, h):
        self.h = h
        self.items = []

    def add(self, label, obj):
        self.items.append((label, obj, fp(obj)))
        return obj

    def check(self, stage, region=''):
        for label, obj, before in self.items:
            self.h.require('argument-unchanged', self.h.true(fp(obj) == before), region=f"{region}{stage}",
                           detail=f"{label} changed ({stage})")
            # observably unchanged also means: what its observers answer still follows from its fields
            if type(obj).__name__ == 'Container':
                self.h.require('argument-observers-unchanged',
                               self.h.true(obj.get_substances() == set(obj.contents) and
                                           obj.has_liquid() == any(s.is_liquid() for s in obj.contents)),
                               region=f"{region}{stage}", detail=f"{label}: get_substances()/has_liquid() no longer match its contents ({stage})")


def _mk_plate(h, lib, name, shape, subs, cap, lo=Fr(1, 100), hi=10**4):
    P = h.env.Plate(name, f"{cap} {h.env.config.volume_storage_unit}", rows=shape[0], columns=shape[1])
    for r in range(shape[0]):
        for c in range(shape[1]):
            w = P.wells[r, c]
            for sname in subs:
                w.contents[lib[sname]] = h.real(f"{name}{r + 1}{c + 1}.{sname}", lo, hi)
            set_volume(h, lib, w)
            h.assume(h.le(w.volume, cap))
    return P


def _second_ops(h, lib, results):
    """apply one further operation to every returned object (aliasing probe)"""
    C = h.env.Container
    water = lib['water']
    sink = C('sink')
    for r in results:
        try:
            t = type(r).__name__
            if t == 'Container':
                C.transfer(r, sink, '0.0005 uL')
                r.remove(water)
                r.fill_to(water, '1000000 L')
            elif t == 'Plate':
                r.remove(water)
                C.transfer(r[1, 1], sink, '0.0005 uL')
                h.env.Plate.transfer(C('drop', initial_contents=[(water, '1 mL')]), r, '0.001 uL')
        except ValueError:
            pass


def h_scenario(h):
    sc = h.p['scenario']
    env = h.env
    C, Plate, Recipe, S = env.Container, env.Plate, env.Recipe, env.Substance
    lib = Lib(h, ['water', 'NaCl', 'DMSO', 'lipase'])
    water, salt, dmso = lib['water'], lib['NaCl'], lib['DMSO']
    W = Watch(h)
    for s in (water, salt, dmso):
        W.add(f"substance {s.name}", s)
    results = []
    h.outcome = 'ok'
    q = h.real('q', 0, 10**5)
    try:
        if sc == 'container:observers':
            # every query of a container, also about substances it does not hold, in several units
            c = W.add('container', mk_container(h, lib, 'c', ['water', 'NaCl'], lo=Fr(1, 100)))
            lip = lib['lipase']
            for s_ in (water, salt, dmso, lip):
                for u_ in (('M', 'g/L', 'm', 'mol/mol', '%w/w') if s_ is not lip else ('U/mL', 'U/g')):
                    c.get_concentration(s_, u_)
            c.get_volume(); c.get_volume('mL'); c.has_liquid(); c.get_substances(); repr(c); hash(c)
            _ = c == mk_container(h, lib, 'other', ['water'], lo=Fr(1, 100))
        elif sc == 'ctor':
            cap = h.real('cap', 1, 10**6)
            spec = W.add('initial_contents', [(water, f"{q} uL"), (salt, '1 mg')])
            results = [C('c', f"{cap} uL", spec)]
        elif sc.startswith('transfer:'):
            cap = h.real('cap', 1, 10**6)
            dst = W.add('destination', mk_container(h, lib, 'dst', ['water'], cap=cap))
            h.assume(h.le(dst.volume, cap))
            if sc == 'transfer:c2c':
                src = W.add('source', mk_container(h, lib, 'src', ['water', 'NaCl']))
            else:
                P = W.add('source plate', _mk_plate(h, lib, 'P', (1, 2), ['water', 'NaCl'], 10**7))
                src = W.add('source slice', P[1, :]) if sc == 'transfer:slice2c' else P
            results = list(C.transfer(src, dst, f"{q} uL"))
        elif sc in ('remove', 'dilute', 'fill_to'):
            cap = h.real('cap', 1, 10**7)
            c = W.add('container', mk_container(h, lib, 'c', ['water', 'NaCl', 'lipase'], cap=cap, lo=Fr(1, 100)))
            h.assume(h.le(c.volume, cap))
            if sc == 'remove':
                results = [c.remove(water), c.remove(S.SOLID)]
            elif sc == 'dilute':
                ct = h.real('ct', Fr(1, 1000), 10)
                results = [c.dilute(salt, f"{ct} M", dmso), c.dilute(salt, f"{ct} M", water, name='renamed')]
            else:
                results = [c.fill_to(dmso, f"{q} uL")]
        elif sc.startswith('create_solution:'):
            solutes = W.add('solute list', [salt, dmso])
            conc = W.add('concentration list', ['0.1 M', '5 mg/g'])
            if sc.endswith('pure'):
                results = [C.create_solution(solutes, water, concentration=conc, total_quantity=f"{q} uL")]
            else:
                solv = W.add('solvent container', mk_container(h, lib, 'solv', ['water', 'lipase'], lo=1))
                results = list(C.create_solution(solutes, solv, concentration=conc, total_quantity=f"{q} uL"))
        elif sc.startswith('create_solution_from:'):
            stock = W.add('stock', mk_container(h, lib, 'stock', ['water', 'NaCl'], lo=1))
            ct = h.real('ct', Fr(1, 1000), 10)
            if sc.endswith('pure'):
                results = list(C.create_solution_from(stock, salt, f"{ct} M", dmso, f"{q} uL"))
            else:
                solv = W.add('solvent container', mk_container(h, lib, 'solv', ['water'], lo=1))
                results = list(C.create_solution_from(stock, salt, f"{ct} M", solv, f"{q} uL"))
        elif sc.startswith('plate:') or sc.startswith('slice:'):
            cap = h.real('cap', 10, 10**5)
            P = W.add('plate P', _mk_plate(h, lib, 'P', (2, 2), ['water', 'NaCl'], cap, hi=10**3))
            if sc in ('plate:c2slice', 'plate:c2plate'):
                src = W.add('source container', mk_container(h, lib, 'src', ['water', 'DMSO'], lo=1))
                dst = W.add('destination slice', P[:, 2]) if sc == 'plate:c2slice' else P
                results = list(Plate.transfer(src, dst, f"{q} uL"))
            elif sc in ('plate:slice2slice', 'plate:well2slice', 'plate:slice2well'):
                Q = W.add('plate Q', _mk_plate(h, lib, 'Q', (2, 2), ['water'], cap, hi=10**3))
                a, b = {'plate:slice2slice': ((1, slice(None)), (2, slice(None))),
                        'plate:well2slice': ('A:1', (slice(None), 2)),
                        'plate:slice2well': ((slice(None), 1), 'B:2')}[sc]
                sa, sb = W.add('source slice', P[a]), W.add('destination slice', Q[b])
                results = list(Plate.transfer(sa, sb, f"{q} uL"))
            elif sc == 'plate:same':
                sa, sb = W.add('source slice', P[1, :]), W.add('destination slice', P[2, :])
                results = list(Plate.transfer(sa, sb, f"{q} uL"))
            elif sc == 'plate:remove':
                results = [P.remove(water), P.remove(S.SOLID)]
            elif sc == 'plate:fill_to':
                results = [P.fill_to(water, f"{q} uL")]
            elif sc == 'slice:remove':
                sl = W.add('slice', P[1, :])
                results = [sl.remove(water), sl.remove(salt)]
            elif sc == 'slice:fill_to':
                sl = W.add('slice', P[:, 1])
                results = [sl.fill_to(water, f"{q} uL"), sl.fill_to(water, f"{q} uL")]
            elif sc == 'plate:observers':
                sl = W.add('slice', P[1, :])
                P.get_volumes(); P.get_volumes(unit='mL'); P.get_volumes(substance=water); P.get_moles(salt)
                P.get_volume(); P.get_substances(); sl.get_volumes(); sl.get_moles([salt, water]); sl.get_substances()
                P.wells[0, 0].get_concentration(salt); P.wells[0, 0].get_concentration(dmso, 'g/L'); P.wells[0, 0].get_volume('mL'); P.wells[0, 0].has_liquid()
                P.get_volumes(substance=[dmso, water]); P.get_moles([dmso, salt]); sl.get_volumes(substance=dmso)
                P.wells[0, 0].get_substances()
        elif sc.startswith('recipe:'):
            cap = h.real('cap', 10, 10**5)
            A = W.add('declared A', mk_container(h, lib, 'A', ['water', 'NaCl'], lo=10))
            B = W.add('declared B', mk_container(h, lib, 'B', ['water'], cap=cap, lo=1, hi=10**3))
            h.assume(h.le(B.volume, cap))
            rec = Recipe()
            if sc == 'recipe:remove-first':
                # remove is the first step touching the declared container (its state equals the caller's object)
                rec.uses(A, B)
                rec.remove(A, water)
                rec.remove(B, S.SOLID)
                rec.transfer(A, B, f"{q} uL")
            elif sc == 'recipe:dest-slice':
                # a destination slice the caller keeps; an earlier step changes the plate it points to
                W.items = [it for it in W.items if it[0] not in ('declared A', 'declared B')]
                A = W.add('declared A', mk_container(h, lib, 'A', ['water'], lo=100, hi=10**6))
                P = W.add('declared plate', _mk_plate(h, lib, 'P', (1, 2), [], cap))
                dsl = W.add('destination slice kept by the caller', P[1, 1])
                ssl = W.add('source slice kept by the caller', P[1, 2])
                rec.uses(A, P)
                T = h.real('T', 0, 10**5)
                rec.transfer(A, P, f"{q} uL")
                rec.transfer(A, dsl, f"{T} uL")
                rec.transfer(ssl, dsl, '0.5 uL')
            elif sc == 'recipe:transfer+fill':
                rec.uses(A, B)
                W.check('after uses')
                T = h.real('T', 1, 10**5)
                rec.transfer(A, B, f"{q} uL")
                rec.fill_to(B, water, f"{T} uL")
                rec.remove(B, salt)
                rec.dilute(A, salt, '0.001 M', water)
            elif sc == 'recipe:solution+from':
                rec.uses(A)
                T = h.real('T', 1, 10**5)
                s1 = W.add('placeholder S', rec.create_solution(salt, A, name='S', concentration='0.01 M', total_quantity=f"{q} uL"))
                s2 = W.add('placeholder F', rec.create_solution_from(A, salt, '0.001 M', water, f"{T} uL", name='F'))
                s3 = W.add('placeholder K', rec.create_container('K', '10 mL', [(water, f"{T} uL")]))
                rec.transfer(s3, s1, '1 uL')
            else:
                P = W.add('declared plate', _mk_plate(h, lib, 'P', (1, 2), ['water'], cap, hi=10**3))
                sl = W.add('slice used in steps', P[1, 2])
                rec.uses(A, P)
                T = h.real('T', 1, 10**5)
                rec.transfer(A, P, f"{q} uL")
                rec.transfer(sl, A, '1 uL')
                rec.remove(sl, salt)
                rec.fill_to(P, water, f"{T} uL")
            W.check('after adding steps')
            baked = rec.bake()
            results = list(baked.values())
            W.check('after bake')
            rec.get_substance_used(water, unit='uL', destinations=[A])
            rec.get_container_flows(A, unit='uL')
            rec.get_amount_remaining(A, unit='uL')
            for r in results:
                W.add(f"baked {r.name}", r)
    except ValueError:
        h.outcome = 'raised'
    W.check('after the call' if h.outcome == 'ok' else 'after the failing call')
    first = Watch(h)
    for i, r in enumerate(results):
        first.add(f"result #{i}", r)
    with h.concolic():
        _second_ops(h, lib, results)
    W.check('after operating on the results', region='alias:')
    first.check('after operating on the results', region='alias:')
