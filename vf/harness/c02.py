"""C02 — a transfer moves exactly the requested amount as a uniform aliquot."""
from __future__ import annotations

import itertools
from fractions import Fraction as Fr

from ..ref import Lib, PREFIX, split_unit
from .common import mk_container, unit_factor, quantity_units, set_volume

PROPERTY = 'C02'
BOUNDS = ("Container.transfer / Plate.transfer on arbitrary valid pre-states: sources of 1-3 components over the "
          "substance library {water, DMSO, NaCl, Na2SO4, lipase, amylase}, every amount symbolic in [0, 1e6] storage "
          "units, destination with 0-2 symbolic components, quantity symbolic with 0 <= q <= held(unit of q); "
          "units L/g/mol/U with 2 (quick) or 3-4 (thorough) prefixes each; plate forms 1->n and n->1 with n <= 3 "
          "wells (1x3 rows), element-wise, and the same three forms with selections given as lists of wells (2x2 plates); chains of two successive transfers; rounding model per "
          "cell: lite (internal roundings = identity) or delta (|round(x)-x| <= 0.5e-10, single operation).")
OUTSIDE = ("IEEE rounding of single operations; more than 3 components; plates larger than 2x2/1x3; chains longer "
           "than 2 (they follow by induction from the single step on an arbitrary valid state); symbolic molecular "
           "weights/densities (solver returned unknown in the design probe: the substance library is the bound).")
ASSUMPTIONS = ["pre-states satisfy the bookkeeping invariant volume = round(sum of content volumes) (checked as C10)",
               "instruction-text helpers get_human_readable_unit / convert_from_storage_to_standard_format are "
               "replaced by non-forking summaries (subject of C19)"]
EXPECT_OUTCOMES = ['ok']

SRC_MIXES = [['water'], ['water', 'NaCl'], ['water', 'NaCl', 'lipase'], ['NaCl', 'lipase'],
             ['DMSO', 'Na2SO4', 'amylase'], ['lipase', 'amylase'], ['NaCl', 'Na2SO4']]
DST_MIXES = [[], ['water'], ['NaCl', 'DMSO']]
FIXED_MIXES = [
    {'src.water': '55508.4351', 'src.NaCl': '1000.0000001', 'src.lipase': '250.5', 'dst.water': '12.3456789012',
     'dst.NaCl': '0.0000000007'},
    {'src.water': '0.0123456789', 'src.NaCl': '7.7777777777', 'src.lipase': '0.0000000013', 'dst.water': '3',
     'dst.NaCl': '999999.9999999999'},
]


PLATE_PIN = {'src.water': '55508.4351', 'src.NaCl': '1000.0000001', 'src.lipase': '250.5', 'dst.water': '12.3456789012',
             'P11.water': '5550.84351', 'P12.water': '2775.4217', 'P11.NaCl': '100.0000001', 'P12.NaCl': '50.5',
             'P11.lipase': '25.05', 'P12.lipase': '12.5', 'Q11.water': '12.3456789012', 'Q12.water': '1.5',
             'S11.water': '55508.4351', 'S11.NaCl': '1000.0000001', 'S11.lipase': '250.5'}


def cells(tier, seed):
    out = []
    units = quantity_units(tier)
    srcs = SRC_MIXES if tier == 'thorough' else SRC_MIXES[:5]
    for unit in units:
        for si, src in enumerate(srcs):
            for di, dst in enumerate(DST_MIXES if tier == 'thorough' else DST_MIXES[:2]):
                if tier == 'quick' and di == 1 and si not in (1, 2):
                    continue
                out.append({'id': f"c2c/{unit}/s{si}/d{di}/lite", 'fn': 'h_c2c', 'round': 'lite', 'max_paths': 60,
                            'params': {'unit': unit, 'src': src, 'dst': dst}})
    # delta rounding model (every internal rounding is a bounded error variable): single operation, concrete
    # mixture, symbolic quantity and symbolic rounding errors -> linear real arithmetic
    for unit in (['uL', 'mg', 'umol', 'U'] if tier == 'quick' else units):
        for fi, fixed in enumerate(FIXED_MIXES if tier == 'thorough' else FIXED_MIXES[:1]):
            out.append({'id': f"c2c/{unit}/f{fi}/delta", 'fn': 'h_c2c', 'round': 'delta', 'max_paths': 200,
                        'cost': 5,
                        'params': {'unit': unit, 'src': ['water', 'NaCl', 'lipase'], 'dst': ['water', 'NaCl'],
                                   'delta': True, 'fixed': fixed}})
    # chains of two transfers
    for unit in (['uL', 'mg'] if tier == 'quick' else ['uL', 'mg', 'mmol', 'U']):
        out.append({'id': f"chain2/{unit}", 'fn': 'h_chain', 'round': 'lite', 'max_paths': 120, 'cost': 3,
                    'params': {'unit': unit, 'src': ['water', 'NaCl', 'lipase']}})
    # plate pairing forms
    forms = ['c->row', 'row->c', 'well->row', 'row->well', 'row->row', 'c->list', 'list->c', 'list->list', 'twin/row->row']
    for form in forms:
        for unit in (['uL', 'mg'] if tier == 'quick' else ['uL', 'mg', 'mmol', 'U']):
            out.append({'id': f"plate/{form}/{unit}", 'fn': 'h_plate', 'round': 'lite', 'max_paths': 200, 'cost': 4,
                        'params': {'unit': unit, 'form': form, 'n': 2 if tier == 'quick' else 3}})
    # plate forms under the delta rounding model: concrete (pinned) mixtures, symbolic quantity with many decimals
    # (one source dispensing into several wells is left to the lite model: the second draw divides by a volume that
    #  carries the first draw's rounding errors, and the nonlinear queries do not finish)
    for form in ['row->c', 'row->row']:
        for unit in (['uL', 'umol'] if tier == 'quick' else ['uL', 'nL', 'mg', 'umol', 'nmol']):
            out.append({'id': f"plate/{form}/{unit}/delta", 'fn': 'h_plate', 'round': 'delta', 'max_paths': 200, 'cost': 5,
                        'params': {'unit': unit, 'form': form, 'n': 2, 'delta': True, 'pin': PLATE_PIN, 'q_hi': 1,
                                   'fabs': 1e-13}})
    return out


def _rel_slack(h, q_base, min_volume_storage):
    """Relative slack of the volume branch: the ratio is taken against the cached volume, itself rounded to
    10^-p storage units (|V_r/V - 1| <= ulp / V_r).  0 in the lite model."""
    if h.mode == 'sym':
        if h.sym.round_mode in ('lite', 'ideal'):
            return 0
        return 4 * q_base * h.ulp / min_volume_storage
    v = float(min_volume_storage)
    if v <= 0:
        return 0 if float(q_base) == 0 else float('inf')
    return 4 * float(q_base) * float(h.ulp) / v


def _check_aliquot(h, lib, tag, before, after_src, q_base, base, region='', steps=1, min_vol=None):
    """Obligations (a) size and (b) uniformity for one source container.

    Rounding slack (native floats and the delta model; exactly 0 in the lite model): every stored amount is
    rounded to 10^-p once per transfer, the requested quantity once, and in the volume branch the ratio is taken
    against the *cached, rounded* volume of the source (relative error <= ulp / volume)."""
    subs = list(before.contents)
    ulp = h.ulp
    h.require(f'{tag}:source-keys', h.true(set(after_src.contents) == set(subs)), region)
    moved = 0
    sumf = Fr(0)
    for s in subs:
        moved = moved + lib.amount(s, before.contents[s] - after_src.contents.get(s, 0), base)
        sumf += unit_factor(lib, s, base)
    qscale = {'L': lib.vol_mult(), 'g': Fr(1), 'mol': lib.mol_mult(), 'U': Fr(0)}[base]
    slack = h.rs(2 * steps * ulp * (sumf + qscale))
    if base == 'L':
        slack = slack + _rel_slack(h, q_base, before.volume if min_vol is None else min_vol)
    h.require(f'{tag}:moved==q', h.eq(moved, q_base, slack), region,
              detail=f"amount leaving the source, measured in {base}, equals the requested quantity")
    slack_storage = h.rs(steps * ulp)
    for i in range(len(subs)):
        for j in range(i + 1, len(subs)):
            si, sj = subs[i], subs[j]
            ai, aj = before.contents[si], before.contents[sj]
            l = (ai - after_src.contents.get(si, 0)) * aj
            r = (aj - after_src.contents.get(sj, 0)) * ai
            sl = slack_storage * (ai + aj) if slack_storage else 0
            h.require(f'{tag}:uniform', h.eq(l, r, sl), region,
                      detail=f"{si.name} and {sj.name} leave in the proportion they are present")


def _check_gain(h, tag, src_before, src_after, dst_before, dst_after, region='', steps=1):
    slack_storage = h.rs(steps * h.ulp)
    keys = set(dst_before.contents) | set(src_before.contents)
    h.require(f'{tag}:dest-keys', h.true(set(dst_after.contents) == keys), region)
    for s in keys:
        loss = src_before.contents.get(s, 0) - src_after.contents.get(s, 0)
        gain = dst_after.contents.get(s, 0) - dst_before.contents.get(s, 0)
        h.require(f'{tag}:gain==loss', h.eq(gain, loss, 2 * slack_storage if slack_storage else 0), region,
                  detail=f"destination gains exactly what the source loses ({s.name})")


def h_c2c(h):
    p = h.p
    C = h.env.Container
    lib = Lib(h, set(p['src']) | set(p['dst']))
    src = mk_container(h, lib, 'src', p['src'], fixed=p.get('fixed'))
    dst = mk_container(h, lib, 'dst', p['dst'], fixed=p.get('fixed'))
    q = h.real('q', 0, 10**6)
    prefix, base = split_unit(p['unit'])
    qb = q * PREFIX[prefix]
    have = lib.total(src.contents, base)
    h.assume(h.le(qb, have))
    try:
        s2, d2 = C.transfer(src, dst, f"{q} {p['unit']}")
    except Exception as e:  # noqa: BLE001  (C02 speaks about successful transfers only; refusals are C03)
        h.outcome = 'raised:' + type(e).__name__
        return
    h.outcome = 'ok'
    _check_aliquot(h, lib, 'c2c', src, s2, qb, base)
    _check_gain(h, 'c2c', src, s2, dst, d2)
    for s in src.contents:
        h.observe(f"src.{s.name}", s2.contents[s])


def h_chain(h):
    """Two successive transfers out of the same source; the second starts from the symbolic post-state."""
    p = h.p
    C = h.env.Container
    lib = Lib(h, p['src'])
    src = mk_container(h, lib, 'src', p['src'], lo=Fr(1, 1000))
    dst = C('dst')
    prefix, base = split_unit(p['unit'])
    q1 = h.real('q1', 0, 10**6)
    q2 = h.real('q2', 0, 10**6)
    have = lib.total(src.contents, base)
    h.assume(h.le((q1 + q2) * PREFIX[prefix], have))
    try:
        s1, d1 = C.transfer(src, dst, f"{q1} {p['unit']}")
        s2, d2 = C.transfer(s1, d1, f"{q2} {p['unit']}")
    except Exception as e:  # noqa: BLE001
        h.outcome = 'raised:' + type(e).__name__
        return
    h.outcome = 'ok'
    _check_aliquot(h, lib, 'chain', src, s2, (q1 + q2) * PREFIX[prefix], base, steps=3, min_vol=s1.volume)
    _check_gain(h, 'chain', src, s2, dst, d2, steps=2)


def _mk_plate(h, lib, name, rows, cols, subs, lo=Fr(1, 1000), tagp=None):
    P = h.env.Plate(name, '1 L', rows=rows, columns=cols)
    for r in range(rows):
        for c in range(cols):
            w = P.wells[r, c]
            for sname in subs:
                w.contents[lib[sname]] = h.real(f"{tagp or name}{r + 1}{c + 1}.{sname}", lo, 10**6)
            set_volume(h, lib, w)
    return P


def _size_slack(h, lib, subs, base, q_base, steps, min_vol):
    sumf = sum((unit_factor(lib, s, base) for s in subs), Fr(0))
    qscale = {'L': lib.vol_mult(), 'g': Fr(1), 'mol': lib.mol_mult(), 'U': Fr(0)}[base]
    slack = h.rs(2 * steps * h.ulp * (sumf + qscale))
    if base == 'L':
        slack = slack + _rel_slack(h, q_base, min_vol)
    return slack


def h_plate(h):
    p = h.p
    C, Plate = h.env.Container, h.env.Plate
    n = p['n']
    mix = ['water', 'NaCl', 'lipase']
    lib = Lib(h, mix)
    prefix, base = split_unit(p['unit'])
    q = h.real('q', 0, p.get('q_hi', 10**6))
    if p.get('delta'):
        # a quantity with more decimals than the library keeps, whatever value the solver picks (so that a witness of a
        # rounding in the wrong unit reproduces in floats)
        q = q + h.const('0.0000123456789')
    qb = q * PREFIX[prefix]
    form = p['form']
    quantity = f"{q} {p['unit']}"
    ulp = h.ulp
    if form in ('c->row', 'well->row'):
        # one source dispensing into n wells
        if form == 'c->row':
            src = mk_container(h, lib, 'src', mix, lo=Fr(1, 1000))
            P = _mk_plate(h, lib, 'P', 1, n, ['water'])
            h.assume(h.le(qb * n, lib.total(src.contents, base)))
            call = lambda: Plate.transfer(src, P[1, :], quantity)  # noqa: E731
            get_src = lambda r: r  # noqa: E731
        else:
            S = _mk_plate(h, lib, 'S', 1, 1, mix)
            src = S.wells[0, 0]
            P = _mk_plate(h, lib, 'P', 1, n, ['water'])
            h.assume(h.le(qb * n, lib.total(src.contents, base)))
            call = lambda: Plate.transfer(S[1, 1], P[1, :], quantity)  # noqa: E731
            get_src = lambda r: r.wells[0, 0]  # noqa: E731
        try:
            r_src, P2 = call()
        except Exception as e:  # noqa: BLE001
            h.outcome = 'raised:' + type(e).__name__
            return
        s2 = get_src(r_src)
        # volume of the source before the last draw (for the relative slack of the volume branch)
        min_vol = src.volume - (n - 1) * (qb / lib.vol_mult()) if base == 'L' else None
        _check_aliquot(h, lib, form, src, s2, qb * n, base, steps=n, min_vol=min_vol)
        for s in src.contents:
            loss = src.contents[s] - s2.contents[s]
            total_gain = 0
            for c in range(n):
                total_gain = total_gain + P2.wells[0, c].contents.get(s, 0) - P.wells[0, c].contents.get(s, 0)
            h.require(f'{form}:wells-gain==loss', h.eq(total_gain, loss, h.rs(2 * n * ulp)))
        for c in range(n):
            got = lib.total(P2.wells[0, c].contents, base) - lib.total(P.wells[0, c].contents, base)
            h.require(f'{form}:each-well-gets-q',
                      h.eq(got, qb, _size_slack(h, lib, list(src.contents), base, qb, 1, min_vol)),
                      detail="every destination well receives q")
    elif form in ('row->c', 'row->well'):
        P = _mk_plate(h, lib, 'P', 1, n, mix)
        for c in range(n):
            h.assume(h.le(qb, lib.total(P.wells[0, c].contents, base)))
        if form == 'row->c':
            dst = mk_container(h, lib, 'dst', ['water'])
            call = lambda: C.transfer(P[1, :], dst, quantity)  # noqa: E731
            get_dst = lambda r: r  # noqa: E731
        else:
            Q = _mk_plate(h, lib, 'Q', 1, 1, ['water'])
            dst = Q.wells[0, 0]
            call = lambda: Plate.transfer(P[1, :], Q[1, 1], quantity)  # noqa: E731
            get_dst = lambda r: r.wells[0, 0]  # noqa: E731
        try:
            P2, r_dst = call()
        except Exception as e:  # noqa: BLE001
            h.outcome = 'raised:' + type(e).__name__
            return
        d2 = get_dst(r_dst)
        for c in range(n):
            _check_aliquot(h, lib, form, P.wells[0, c], P2.wells[0, c], qb, base)
        gain = lib.total(d2.contents, base) - lib.total(dst.contents, base)
        sl = 0
        for c in range(n):
            sl = sl + _size_slack(h, lib, list(P.wells[0, c].contents), base, qb, 1, P.wells[0, c].volume)
        h.require(f'{form}:collector-gains-n*q', h.eq(gain, qb * n, sl))
        for s in set(d2.contents) | set(dst.contents):
            loss = 0
            for c in range(n):
                loss = loss + P.wells[0, c].contents.get(s, 0) - P2.wells[0, c].contents.get(s, 0)
            h.require(f'{form}:gain==loss', h.eq(d2.contents.get(s, 0) - dst.contents.get(s, 0), loss,
                                                 h.rs(2 * n * ulp)))
    elif form in ('c->list', 'list->c', 'list->list'):
        # selections given as lists of wells: A1 and B2 of a 2x2 plate
        cells_ = [(0, 0), (1, 1)]
        item = ['A:1', ('B', 2)]
        if form == 'c->list':
            src = mk_container(h, lib, 'src', mix, lo=Fr(1, 1000))
            P = _mk_plate(h, lib, 'P', 2, 2, ['water'])
            h.assume(h.le(qb * 2, lib.total(src.contents, base)))
            try:
                s2, P2 = Plate.transfer(src, P[item], quantity)
            except Exception as e:  # noqa: BLE001
                h.outcome = 'raised:' + type(e).__name__
                return
            min_vol = src.volume - (qb / lib.vol_mult()) if base == 'L' else None
            _check_aliquot(h, lib, form, src, s2, qb * 2, base, steps=2, min_vol=min_vol)
            for rc in cells_:
                got = lib.total(P2.wells[rc].contents, base) - lib.total(P.wells[rc].contents, base)
                h.require(f'{form}:each-well-gets-q', h.eq(got, qb, _size_slack(h, lib, list(src.contents), base, qb, 1, min_vol)))
        elif form == 'list->c':
            P = _mk_plate(h, lib, 'P', 2, 2, mix)
            dst = mk_container(h, lib, 'dst', ['water'])
            for rc in cells_:
                h.assume(h.le(qb, lib.total(P.wells[rc].contents, base)))
            try:
                P2, d2 = C.transfer(P[item], dst, quantity)
            except Exception as e:  # noqa: BLE001
                h.outcome = 'raised:' + type(e).__name__
                return
            sl = 0
            for rc in cells_:
                _check_aliquot(h, lib, form, P.wells[rc], P2.wells[rc], qb, base)
                sl = sl + _size_slack(h, lib, list(P.wells[rc].contents), base, qb, 1, P.wells[rc].volume)
            gain = lib.total(d2.contents, base) - lib.total(dst.contents, base)
            h.require(f'{form}:collector-gains-n*q', h.eq(gain, qb * 2, sl))
        else:
            P = _mk_plate(h, lib, 'P', 2, 2, mix)
            Q = _mk_plate(h, lib, 'Q', 2, 2, ['water'])
            item2 = [(2, 1), 'A:2']
            cells2 = [(1, 0), (0, 1)]
            for rc in cells_:
                h.assume(h.le(qb, lib.total(P.wells[rc].contents, base)))
            try:
                P2, Q2 = Plate.transfer(P[item], Q[item2], quantity)
            except Exception as e:  # noqa: BLE001
                h.outcome = 'raised:' + type(e).__name__
                return
            for rc, rd in zip(cells_, cells2):
                _check_aliquot(h, lib, form, P.wells[rc], P2.wells[rc], qb, base)
                _check_gain(h, form, P.wells[rc], P2.wells[rc], Q.wells[rd], Q2.wells[rd])
    elif form in ('row->row', 'twin/row->row'):
        P = _mk_plate(h, lib, 'P', 1, n, mix)
        if form == 'twin/row->row':
            # a replicate: a second, distinct plate with the same name, labels and (at this moment) identical wells
            from copy import deepcopy
            Q = deepcopy(P)
        else:
            Q = _mk_plate(h, lib, 'Q', 1, n, ['water'])
        for c in range(n):
            h.assume(h.le(qb, lib.total(P.wells[0, c].contents, base)))
        try:
            P2, Q2 = Plate.transfer(P[1, :], Q[1, :], quantity)
        except Exception as e:  # noqa: BLE001
            h.outcome = 'raised:' + type(e).__name__
            return
        for c in range(n):
            _check_aliquot(h, lib, form, P.wells[0, c], P2.wells[0, c], qb, base)
            _check_gain(h, form, P.wells[0, c], P2.wells[0, c], Q.wells[0, c], Q2.wells[0, c])
    h.outcome = 'ok'
