"""C17 — remove deletes exactly the selected substances (containers, plates, slices, recipes)."""
from __future__ import annotations

from fractions import Fraction as Fr

from ..ref import Lib, PREFIX, split_unit
from .common import mk_container, set_volume
from .c01 import select

PROPERTY = 'C17'
BOUNDS = ("remove on an arbitrary valid container of 1-4 components out of {water, DMSO, NaCl, lipase} and on every well "
          "of a 2x2 plate (non-uniform symbolic contents, one well lacking the selected substance), selectors: each "
          "substance, an absent substance, SOLID, LIQUID, ENZYME; targets: container, whole plate, row / column / "
          "single-well / list slices and slices of slices; several recipes removing from one container; directly and as a recipe step followed by get_substance_used (destinations "
          "given and default) and get_container_flows['out'] in mol, g, L and U units. Lite model for the direct "
          "cells, delta model for the single-container cells, output roundings always modelled.")
OUTSIDE = "IEEE rounding; plates larger than 2x2."
ASSUMPTIONS = ["Recipe._rounding_noise (the library's own bound on float rounding noise, the tolerance of get_substance_used's net-decrease test) is 0 in the real-number model, where roundings at internal precision are the identity; native companion runs use the real one",
               "instruction-text helpers are replaced by non-forking summaries (subject of C19)"]
EXPECT_OUTCOMES = ['ok']

MIX4 = ['water', 'DMSO', 'NaCl', 'lipase']
SELECTORS = ['water', 'NaCl', 'lipase', 'Na2SO4(absent)', 'SOLID', 'LIQUID', 'ENZYME']
SLICES = {
    'plate': ('PLATE', [(0, 0), (0, 1), (1, 0), (1, 1)]),
    'row': ((1, slice(None)), [(0, 0), (0, 1)]),
    'col': ((slice(None), 2), [(0, 1), (1, 1)]),
    'well': ('B:1', [(1, 0)]),
    'list': (['A:2', 'B:1'], [(0, 1), (1, 0)]),
    'sub': (('SUB', (slice(None), slice(None)), (slice(0, 1), slice(1, 2))), [(0, 1)]),
    'sublist': (('SUB', ['A:1', 'B:2', 'B:1'], slice(1, None)), [(1, 1), (1, 0)]),
}


def cells(tier, seed):
    out = []
    mixes = [MIX4, ['water', 'NaCl'], ['NaCl'], ['water', 'DMSO', 'lipase']]
    for mi, mix in enumerate(mixes if tier == 'thorough' else mixes[:2]):
        for sel in SELECTORS:
            for model in ('lite', 'delta'):
                out.append({'id': f"container/m{mi}/{sel}/{model}", 'fn': 'h_container', 'round': model, 'max_paths': 50,
                            'params': {'mix': mix, 'sel': sel}})
    for sl in SLICES:
        for sel in (SELECTORS if tier == 'thorough' else ['water', 'SOLID', 'ENZYME', 'Na2SO4(absent)']):
            out.append({'id': f"plate/{sl}/{sel}", 'fn': 'h_plate', 'round': 'lite', 'max_paths': 50, 'cost': 2,
                        'params': {'slice': sl, 'sel': sel}})
    out.append({'id': "recipe/two-recipes", 'fn': 'h_two_recipes', 'round': 'lite', 'max_paths': 50, 'params': {}})
    for target in ['container', 'plate', 'row', 'well', 'list', 'sub']:
        for sel in (['water', 'NaCl', 'SOLID', 'LIQUID', 'ENZYME'] if tier == 'thorough' else ['water', 'SOLID']):
            for unit in (['umol', 'mg', 'uL', 'U'] if tier == 'thorough' else ['umol', 'mg']):
                out.append({'id': f"recipe/{target}/{sel}/{unit}", 'fn': 'h_recipe', 'round': 'lite', 'max_paths': 100,
                            'cost': 4, 'params': {'target': target, 'sel': sel, 'unit': unit}})
    return out


def _selector(h, lib_subs, sel):
    S = h.env.Substance
    if sel in ('SOLID', 'LIQUID', 'ENZYME'):
        code = getattr(S, sel)
        pred = {'SOLID': lambda s: s.is_solid(), 'LIQUID': lambda s: s.is_liquid(), 'ENZYME': lambda s: s.is_enzyme()}[sel]
        return code, pred
    name = sel.split('(')[0]
    sub = lib_subs[name]
    return sub, (lambda s: s.name == name)


def _check_removed(h, lib, label, before, after, pred, region=''):
    sl = h.rs(2 * h.ulp)
    keep = {s: a for s, a in before.contents.items() if not pred(s)}
    h.require(f'{label}:selected-absent', h.true(not any(pred(s) for s in after.contents)), region,
              detail="a selected substance is still present")
    h.require(f'{label}:others-present', h.true(set(after.contents) == set(keep)), region)
    for s, a in keep.items():
        h.require(f'{label}:others-unchanged', h.eq(after.contents.get(s, 0), a), region, detail=f"{s.name} changed")
    h.require(f'{label}:volume', h.eq(after.volume, lib.volume_storage(keep) if keep else 0, sl), region,
              detail="volume equals the summed volume of what remains")
    h.require(f'{label}:capacity-kept', h.true(after.max_volume == before.max_volume and after.name == before.name), region)


def h_container(h):
    p = h.p
    lib = Lib(h, set(p['mix']) | {'Na2SO4', 'lipase', 'water', 'NaCl'})
    c = mk_container(h, lib, 'c', p['mix'])
    what, pred = _selector(h, lib, p['sel'])
    r = c.remove(what)
    h.outcome = 'ok'
    _check_removed(h, lib, 'container', c, r, pred)


def _mk_plate(h, lib, name):
    """2x2 plate, non-uniform: well A1 holds everything, A2 lacks water, B1 lacks NaCl, B2 lacks lipase."""
    P = h.env.Plate(name, '1000 L', rows=2, columns=2)
    lack = {(0, 0): None, (0, 1): 'water', (1, 0): 'NaCl', (1, 1): 'lipase'}
    for (r, c), missing in lack.items():
        w = P.wells[r, c]
        for sname in MIX4:
            if sname == missing:
                continue
            w.contents[lib[sname]] = h.real(f"{name}{r + 1}{c + 1}.{sname}", 0, 10**4)
        set_volume(h, lib, w)
    return P


def _same(a, b):
    from ..symx import lift
    if getattr(a, 'f', None) is not None or getattr(b, 'f', None) is not None:
        return lift(a) == lift(b)
    return a == b


def h_plate(h):
    p = h.p
    lib = Lib(h, set(MIX4) | {'Na2SO4'})
    P = _mk_plate(h, lib, 'P')
    what, pred = _selector(h, lib, p['sel'])
    item, addressed = SLICES[p['slice']]
    target = select(P, item)
    R = target.remove(what)
    h.outcome = 'ok'
    h.require('plate:returns-new-plate', h.true(R is not P and isinstance(R, h.env.Plate)))
    for r in range(2):
        for c in range(2):
            b, a = P.wells[r, c], R.wells[r, c]
            if (r, c) in addressed:
                _check_removed(h, lib, 'plate', b, a, pred, region=p['slice'])
            else:
                same = set(a.contents) == set(b.contents) and all(_same(a.contents[s], b.contents[s]) for s in b.contents) \
                    and _same(a.volume, b.volume)
                h.require('plate:other-wells-identical', h.true(same), region=p['slice'],
                          detail=f"well {(r, c)} is outside the slice")


def h_two_recipes(h):
    """two recipes start from the same container and remove different things; then one recipe removes twice from equal
    states: every remove step must report what it removed (no state may leak from one step or recipe to the next)"""
    lib = Lib(h, set(MIX4) | {'Na2SO4'})
    Recipe, S_ = h.env.Recipe, h.env.Substance
    A = mk_container(h, lib, 'A', ['water', 'NaCl', 'DMSO'])
    water, salt = lib['water'], lib['NaCl']
    h.outcome = 'ok'
    for n, what, removed in ((1, water, [water]), (2, S_.SOLID, [salt]), (3, S_.LIQUID, [water, lib['DMSO']])):
        rec = Recipe().uses(A)
        rec.remove(A, what)
        rec.bake()
        flows = rec.get_container_flows(A, unit='umol')
        truth = 0
        for s in removed:
            truth = truth + A.contents[s]
        h.require('recipe:flows-out==discarded', h.eq(flows['out'], truth, Fr(1, 20) + h.rs(h.ulp * 10**4)), region=f"recipe#{n}",
                  detail=f"recipe #{n} on the same container: outflow reported for its remove step")
        h.require('recipe:flows-in==0', h.eq(flows['in'], 0, Fr(1, 20)), region=f"recipe#{n}")
        h.require('container:observer', h.true(A.get_substances() == set(A.contents)), region=f"recipe#{n}",
                  detail="get_substances() of the declared container after the recipe")


def h_recipe(h):
    """remove as a recipe step: what the tracking queries report as discarded is what was removed."""
    p = h.p
    lib = Lib(h, set(MIX4) | {'Na2SO4'})
    Recipe = h.env.Recipe
    what, pred = _selector(h, lib, p['sel'])
    unit = p['unit']
    prefix, base = split_unit(unit)
    if p['target'] == 'container':
        obj = mk_container(h, lib, 'c', MIX4)
        target = obj
        wells_before = [obj]
        addressed = [0]
    else:
        obj = _mk_plate(h, lib, 'P')
        item, cells_ = SLICES[p['target']]
        target = select(obj, item)
        wells_before = [obj.wells[r, c] for r in range(2) for c in range(2)]
        addressed = [r * 2 + c for (r, c) in cells_]
    rec = Recipe().uses(obj)
    aux = rec.create_container('aux')          # a second declared object, never touched by the remove step
    rec.remove(target, what)
    res = rec.bake()
    h.outcome = 'ok'
    out = res[obj.name]
    wells_after = [out] if p['target'] == 'container' else [out.wells[r, c] for r in range(2) for c in range(2)]
    prec = h.env.config.precisions.get(unit, h.env.config.precisions['default'])
    half = Fr(1, 2 * 10**prec)
    for s in [lib[n] for n in MIX4]:
        removed = 0
        for i in addressed:
            if pred(s):
                removed = removed + wells_before[i].contents.get(s, 0)
        truth = lib.amount(s, removed, base) / PREFIX[prefix]
        if base == 'U' and not s.is_enzyme():
            continue     # non-enzymes cannot be expressed in activity units (C06)
        # usage = net gain of the destinations + discarded.  With the object itself as destination the loss and the
        # discarded amount cancel (0); with an untouched destination only the discarded amount is left.
        for dest_label, dests, want in (('self', [obj], 0), ('default', 'plates', 0), ('other', [aux], truth)):
            if dest_label == 'default' and p['target'] == 'container':
                want = truth      # no plate among the destinations: only the discarded amount counts
            try:
                got = rec.get_substance_used(s, unit=unit, destinations=dests)
            except ValueError as e:
                h.fail('recipe:get_substance_used', f"raised {e}", region=p['target'])
                continue
            h.require('recipe:discarded==removed', h.eq(got, want, half + h.rs(h.ulp * 10**4)),
                      region=p['target'], detail=f"{s.name}: usage reported for the remove step, destinations={dest_label}")
    # flows: 'out' of the object = everything removed, in the unit
    total_removed = 0
    per_well = []
    for i, w in enumerate(wells_before):
        t = 0
        if i in addressed:
            for s, a in w.contents.items():
                if pred(s):
                    t = t + lib.amount(s, a, base)
        per_well.append(t / PREFIX[prefix])
        total_removed = total_removed + t / PREFIX[prefix]
    flows = rec.get_container_flows(obj, unit=unit)
    if p['target'] == 'container':
        h.require('recipe:flows-out==discarded', h.eq(flows['out'], total_removed, half + h.rs(h.ulp * 10**4)), region=p['target'])
        h.require('recipe:flows-in==0', h.eq(flows['in'], 0, half), region=p['target'])
    else:
        for i in range(4):
            r, c = divmod(i, 2)
            h.require('recipe:flows-out==discarded', h.eq(flows['out'][r, c], per_well[i], half + h.rs(h.ulp * 10**4)),
                      region=p['target'], detail=f"per-well outflow of well {(r, c)}")
            h.require('recipe:flows-in==0', h.eq(flows['in'][r, c], 0, half), region=p['target'])
    for i, (b, a) in enumerate(zip(wells_before, wells_after)):
        if i in addressed:
            _check_removed(h, lib, 'recipe', b, a, pred, region=p['target'])
