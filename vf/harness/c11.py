"""C11 — dilute and fill_to reach their target by adding only solvent."""
from __future__ import annotations

from fractions import Fraction as Fr

from ..ref import Lib, PREFIX, split_unit
from .common import mk_container
from .c10 import _conc_oracle

PROPERTY = 'C11'
BOUNDS = ("Container.dilute / Container.fill_to on an arbitrary valid container: solute (NaCl, Na2SO4, DMSO or "
          "triethylamine) plus 0-3 further components out of {the solvent already present, a second liquid, a second solid, an "
          "enzyme bystander}, every amount symbolic in [1e-2, 1e5], symbolic target concentration / fill target and a "
          "symbolic capacity; solvents water and DMSO; concentration spellings M, m, mol/L, g/L, mg/mL, g/g, mg/g, "
          "mol/mol, mol/kg, L/L, mL/L, g/mol, %w/w, %v/v, %w/v; fill units uL/mL/L, mg/g, umol/mmol/mol. "
          "Lite rounding model. A ternary mixture also under the storage configuration (mmol, mL) (thorough: + (mol, uL), (nmol, uL), (umol, L)).")
OUTSIDE = ("IEEE rounding; dilution of enzymes (declared unsupported by the library); more than 4 components; the no-op "
           "tolerance band |c*bottom - top| <= 1e-6*top, inside which an unchanged copy is the expected answer.")
ASSUMPTIONS = ["instruction-text helpers are replaced by non-forking summaries (subject of C19)"]
EXPECT_OUTCOMES = ['ok', 'refused']

CONCS = ['M', 'm', 'mol/L', 'g/L', 'mg/mL', 'g/g', 'mg/g', 'mol/mol', 'mol/kg', 'L/L', 'mL/L', 'g/mol',
         '%w/w', '%v/v', '%w/v']
# (name, solute, others, solvent)
MIXES = [
    ('binary', 'NaCl', ['water'], 'water'),
    ('ternary', 'NaCl', ['water', 'Na2SO4'], 'water'),
    ('other-solvent', 'NaCl', ['water'], 'DMSO'),
    ('enzyme-bystander', 'NaCl', ['water', 'lipase'], 'water'),
    ('liquid-solute', 'DMSO', ['water', 'NaCl'], 'water'),
    ('no-solvent-yet', 'Na2SO4', ['NaCl'], 'water'),
    ('four', 'triethylamine', ['water', 'NaCl', 'lipase'], 'DMSO'),
]


def cells(tier, seed):
    out = []
    for cu in (CONCS if tier == 'thorough' else ['M', 'm', 'g/L', 'mg/g', 'mol/mol', 'mL/L', '%w/v', '%w/w']):
        for name, solute, others, solvent in (MIXES if tier == 'thorough' else MIXES[:5]):
            if tier == 'quick' and cu in ('mL/L',) and name not in ('liquid-solute', 'binary'):
                continue
            out.append({'id': f"dilute/{cu.replace('/', '_')}/{name}", 'fn': 'h_dilute', 'round': 'lite', 'max_paths': 200,
                        'params': {'cu': cu, 'solute': solute, 'others': others, 'solvent': solvent}})
    for unit in (['uL', 'mL', 'L', 'mg', 'g', 'umol', 'mmol', 'mol'] if tier == 'thorough' else ['mL', 'g', 'mmol']):
        for name, solute, others, solvent in (MIXES if tier == 'thorough' else [MIXES[0], MIXES[2], MIXES[3], MIXES[6]]):
            out.append({'id': f"fill_to/{unit}/{name}", 'fn': 'h_fill_to', 'round': 'lite', 'max_paths': 200,
                        'params': {'unit': unit, 'mix': [solute] + others, 'solvent': solvent}})
    # the same postconditions under other storage configurations (the library generated with another pyplate.yaml)
    from .c18 import config_dir
    for cfg in ([('mmol', 'mL', 10)] if tier == 'quick' else [('mmol', 'mL', 10), ('mol', 'uL', 10), ('nmol', 'uL', 10), ('umol', 'L', 10)]):
        d, tag = config_dir(*cfg)
        name, solute, others, solvent = MIXES[1]
        for cu in ['M', 'mg/g']:
            out.append({'id': f"dilute/{cu.replace('/', '_')}/{name}@{tag}", 'fn': 'h_dilute', 'round': 'lite', 'max_paths': 200,
                        'config': d, 'config_tag': tag,
                        'params': {'cu': cu, 'solute': solute, 'others': others, 'solvent': solvent}})
        for unit in ['mL', 'mmol']:
            out.append({'id': f"fill_to/{unit}/{name}@{tag}", 'fn': 'h_fill_to', 'round': 'lite', 'max_paths': 200,
                        'config': d, 'config_tag': tag,
                        'params': {'unit': unit, 'mix': [solute] + others, 'solvent': solvent}})
    return out


def _only_solvent_increased(h, label, before, after, solvent):
    keys = set(before.contents) | {solvent}
    h.require(f'{label}:keys', h.true(set(after.contents) <= keys and set(before.contents) <= set(after.contents)),
              detail="no substance other than the solvent appears, none disappears")
    sl = h.rs(2 * h.ulp)
    for s in before.contents:
        if s is solvent or s == solvent:
            continue
        h.require(f'{label}:bystanders-unchanged', h.eq(after.contents.get(s, 0), before.contents[s], sl),
                  detail=f"{s.name} must not change")
    h.require(f'{label}:solvent-not-decreased', h.ge(after.contents.get(solvent, 0), before.contents.get(solvent, 0), sl))


def h_dilute(h):
    p = h.p
    names = [p['solute']] + p['others'] + [p['solvent']]
    lib = Lib(h, set(names))
    solute, solvent = lib[p['solute']], lib[p['solvent']]
    cap = h.real('cap', 1, 10**9)
    c = mk_container(h, lib, 'c', [p['solute']] + p['others'], cap=cap, lo=Fr(1, 100), hi=10**5)
    h.assume(h.le(lib.volume_storage(c.contents), cap))
    ct = h.real('ct', Fr(1, 10**6), 10**4)
    num0, den0, scale = _conc_oracle(lib, c, solute, p['cu'])
    # current concentration (in cu) = num0/den0*scale ; target ct
    try:
        r = c.dilute(solute, f"{ct} {p['cu']}", solvent)
    except ValueError:
        h.outcome = 'refused'
        # justified: target above (or within the no-op band of) the current concentration, or the result would overflow
        # volume of the result if the target were met: den grows by x*d, volume by x*v
        d_per = lib.amount(solvent, Fr(1), _den_base(lib, p['cu']))
        v_per = lib.amount(solvent, Fr(1), 'L') / lib.vol_mult()
        # x = (num0*scale/ct - den0)/d_per ; overflow iff V0 + x*v_per > cap
        V0 = lib.volume_storage(c.contents)
        overflow = h.ge(V0 * d_per * ct + (num0 * scale - den0 * ct) * v_per, cap * d_per * ct * (1 - Fr(1, 10**6)))
        h.require('dilute:refusal-justified', h.any_of([h.ge(ct * den0, num0 * scale * (1 - Fr(1, 10**5))), overflow]),
                  detail="a dilution to a lower concentration that fits the capacity was refused")
        return
    h.outcome = 'ok'
    _only_solvent_increased(h, 'dilute', c, r, solvent)
    num1, den1, _ = _conc_oracle(lib, r, solute, p['cu'])
    unchanged = h.eq(r.contents.get(solvent, 0), c.contents.get(solvent, 0))
    # target met: num1*scale == ct*den1   (or: unchanged copy inside the documented 1e-6 relative band)
    met = h.eq(num1 * scale, ct * den1, h.rs(4 * h.ulp * scale * den1))
    in_band = h.le(ct * den0, num0 * scale * (1 + Fr(2, 10**6))) & h.ge(ct * den0, num0 * scale * (1 - Fr(2, 10**6)))
    h.require('dilute:target-met', met | (unchanged & in_band),
              detail=f"concentration of {p['solute']} in {p['cu']} equals the target after dilution")
    h.require('dilute:volume<=capacity', h.le(r.volume, cap, h.rs(2 * h.ulp)))
    h.require('dilute:acceptance-justified', h.le(ct * den0, num0 * scale * (1 + Fr(2, 10**6))),
              detail="a target above the current concentration was accepted")


def _den_base(lib, cu):
    if cu == 'M':
        return 'L'
    if cu == 'm':
        return 'g'
    if cu == '%w/w':
        return 'g'
    if cu == '%v/v':
        return 'L'
    if cu == '%w/v':
        return split_unit(lib.h.env.config.default_weight_volume_units.split('/')[1])[1]
    return split_unit(cu.split('/')[1])[1]


def h_fill_to(h):
    p = h.p
    lib = Lib(h, set(p['mix']) | {p['solvent']})
    solvent = lib[p['solvent']]
    prefix, base = split_unit(p['unit'])
    cap = h.real('cap', 1, 10**9)
    c = mk_container(h, lib, 'c', p['mix'], cap=cap, lo=Fr(1, 100), hi=10**5)
    h.assume(h.le(lib.volume_storage(c.contents), cap))
    T = h.real('T', Fr(1, 10**6), 10**6)
    Tb = T * PREFIX[prefix]
    cur = lib.total(c.contents, base)
    try:
        r = c.fill_to(solvent, f"{T} {p['unit']}")
    except ValueError:
        h.outcome = 'refused'
        need = lib.storage_from(solvent, Tb - cur, base)
        newvol = lib.volume_storage(c.contents) + lib.amount(solvent, need, 'L') / lib.vol_mult()
        h.require('fill_to:refusal-justified', h.any_of([h.lt(Tb, cur), h.gt(newvol, cap)]),
                  detail="a fill target at or above the current quantity that fits was refused")
        return
    h.outcome = 'ok'
    _only_solvent_increased(h, 'fill_to', c, r, solvent)
    tot = lib.total(r.contents, base)
    sl = h.rs(4 * h.ulp * (1 + lib.amount(solvent, Fr(1), base)) + 2 * h.ulp * PREFIX[prefix])
    h.require('fill_to:total==target', h.eq(tot, Tb, sl),
              detail=f"total quantity in {base} (all substances, enzymes included) equals the fill target")
    h.require('fill_to:volume<=capacity', h.le(r.volume, cap, h.rs(2 * h.ulp)))
    h.require('fill_to:acceptance-justified', h.ge(Tb, cur, h.rs(Fr(1, 10**9))))
