"""C15 — container flows and amount remaining balance with the recipe's state."""
from __future__ import annotations

import random
from fractions import Fraction as Fr

from ..ref import PREFIX, split_unit
from . import recipes as R
from .recipes import containers_of
from .c09 import run_recipe

PROPERTY = 'C15'
BOUNDS = ("Baked recipe programs as in C09 (quick: all 1-step programs and every 2-step program whose steps share an object; thorough: all 2-step and 120 "
          "seeded 3-step programs over the 22 templates, symbolic quantities, every stage split point); for every "
          "object used (containers A, B, C, S, F and the 2x2 plate P, per well), timeframes all / s1 / s2 restricted to "
          "those in which the object is touched, units uL and mg (thorough: + umol, mL, g): get_amount_remaining "
          "before/after equals the object's total content at the start/end of the timeframe in the eager ledger; "
          "get_container_flows in/out equal the ledger's gains/losses, are non-negative, and in - out equals the change "
          "in amount remaining. Output rounding modelled. Lite rounding model.")
OUTSIDE = ("IEEE rounding; recipes whose bake is refused; enzymes in the cast (activity units are exercised in C17's "
           "recipe cells); programs longer than 3.")
ASSUMPTIONS = ["instruction-text helpers are replaced by non-forking summaries (subject of C19)",
               "numpy.linalg.solve replaced by its exact contract"]
EXPECT_OUTCOMES = ['ok']


def cells(tier, seed):
    out = []
    rng = random.Random(seed or 1)
    p1 = [p for p in R.programs(1)]
    p2 = [p for p in R.programs(2) if len(p) == 2]
    if tier == 'quick':
        progs = p1 + [p for p in p2 if R.interacting(p)]   # steps sharing an object; independent pairs: thorough tier
        units = ['uL', 'mg']
    else:
        p3 = [p for p in R.programs(3) if len(p) == 3]
        rng.shuffle(p3)
        progs = p1 + p2 + p3[:120]
        units = ['uL', 'mL', 'mg', 'g', 'umol']
    for prog in progs:
        for k in range(0, len(prog) + 1):
            if tier == 'quick' and k != 1:
                continue
            if tier == 'thorough' and len(prog) == 3 and k not in (1, 2):
                continue
            groups = [units] if tier == 'quick' else ([units[:2], units[2:]] if len(prog) < 3 else [units[:2]])
            for gi, group in enumerate(groups):
                out.append({'id': f"prog/{','.join(prog)}/k{k}/u{gi}", 'fn': 'h_flows', 'round': 'lite', 'max_paths': 400,
                            'cost': 2 ** len(prog), 'gens': 200,
                            'params': {'prog': list(prog), 'split': k, 'units': group}})
    # dilution of a stock with a solvent it does not contain
    for prog in (['fromAd'], ['fromAd', 'A>B'], ['A>B', 'fromAd']):
        out.append({'id': f"prog/{','.join(prog)}/k1/u0", 'fn': 'h_flows', 'round': 'lite', 'max_paths': 400,
                    'cost': 2 ** len(prog), 'gens': 200, 'params': {'prog': prog, 'split': 1, 'units': units[:2]}})
    # the declared container A carries the name of the solvent substance of a create_solution step
    for prog in (['solW', 'A>B'], ['A>B', 'solW'], ['solW', 'A>Pr']):
        out.append({'id': f"samename/{','.join(prog)}/k1/u0", 'fn': 'h_flows', 'round': 'lite', 'max_paths': 400,
                    'cost': 2 ** len(prog), 'gens': 200, 'params': {'prog': prog, 'split': 1, 'units': units[:2],
                                                                    'a_name': 'water'}})
    return out


def _total(lib, c, base):
    return lib.total(c.contents, base)


def _same_obj(a, b):
    """ledger objects unchanged between two states (identity is enough: the eager fold returns new objects on change)"""
    return a is b


def h_flows(h):
    p = h.p
    prog, split = p['prog'], p['split']
    out = run_recipe(h, prog, split)
    if out is None:
        h.outcome = 'bake-refused'
        return
    rec, cast, objects, states, discards = out
    h.outcome = 'ok'
    for unit in p['units']:
        _flows(h, prog, split, rec, cast, objects, states, discards, unit)


def _flows(h, prog, split, rec, cast, objects, states, discards, unit):
    lib = cast.lib
    prefix, base = split_unit(unit)
    prec = h.env.config.precisions.get(unit, h.env.config.precisions['default'])
    half = Fr(1, 2 * 10**prec)
    n = len(prog)
    frames = {'all': (0, n), 's1': (0, min(split, n)), 's2': (min(split, n), n)}
    slice_fill = 'fillS' in prog
    for name in sorted(states[0]):
        obj = objects[name]
        is_plate = hasattr(obj, 'wells')
        for fname, (a, b) in frames.items():
            touched = [i for i in range(a, b) if states[i + 1][name] is not states[i][name]]
            if not touched:
                continue         # the property speaks about objects used by at least one step of the timeframe
            region = f"{unit}/{name}/{fname}" + ('/slice-fill' if slice_fill and is_plate else '')
            wells_a, wells_b = containers_of(states[a][name]), containers_of(states[b][name])
            # ---- amount remaining
            for mode, wells in (('before', wells_a), ('after', wells_b)):
                got = rec.get_amount_remaining(obj, timeframe=fname, unit=unit, mode=mode)
                if got is None:
                    h.fail('remaining:answered', f"get_amount_remaining returned None for {name} in {fname}", region)
                    continue
                for wi, w in enumerate(wells):
                    truth = _total(lib, w, base) / PREFIX[prefix]
                    g = got[divmod(wi, 2)] if is_plate else got
                    h.require(f'remaining-{mode}==ledger', h.eq(g, truth, h.rs(h.ulp * 10**4)), region,
                              detail=f"{name}{' well ' + str(divmod(wi, 2)) if is_plate else ''}: total content at the "
                                     f"{'start' if mode == 'before' else 'end'} of {fname} in {unit}")
            # ---- flows: gains and losses step by step
            flows = rec.get_container_flows(obj, timeframe=fname, unit=unit)
            n_w = len(wells_a)
            gain = [0] * n_w
            loss = [0] * n_w
            for i in range(a, b):
                wa, wb = containers_of(states[i][name]), containers_of(states[i + 1][name])
                for wi in range(n_w):
                    d = (_total(lib, wb[wi], base) - _total(lib, wa[wi], base)) / PREFIX[prefix]
                    # each template changes a given well in one direction only; the sign is decided on the path
                    if h.decide(h.ge(d, 0)):
                        gain[wi] = gain[wi] + d
                    else:
                        loss[wi] = loss[wi] - d
            for wi in range(n_w):
                fin = flows['in'][divmod(wi, 2)] if is_plate else flows['in']
                fout = flows['out'][divmod(wi, 2)] if is_plate else flows['out']
                tag = f"{name}{' well ' + str(divmod(wi, 2)) if is_plate else ''}"
                sl = half + h.rs(h.ulp * 10**4)
                h.require('in==gains', h.eq(fin, gain[wi], sl), region, detail=f"{tag}: inflow over {fname} in {unit}")
                h.require('out==losses', h.eq(fout, loss[wi], sl), region, detail=f"{tag}: outflow over {fname} in {unit}")
                h.require('flows>=0', h.ge(fin, 0) & h.ge(fout, 0), region, detail=f"{tag}: a flow is negative")
                change = (_total(lib, wells_b[wi], base) - _total(lib, wells_a[wi], base)) / PREFIX[prefix]
                h.require('in-out==change', h.eq(fin - fout, change, 2 * half + h.rs(h.ulp * 10**4)), region,
                          detail=f"{tag}: inflow - outflow = change in amount remaining over {fname}")
