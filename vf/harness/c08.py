"""C08 — baking a recipe equals performing its steps eagerly, in order."""
from __future__ import annotations

import random
from copy import deepcopy

from . import recipes as R
from .recipes import Cast, TEMPLATES, add_step, eager_step, containers_of

PROPERTY = 'C08'
BOUNDS = ("Recipe programs of length <= 2 (quick: all 1-step, all 2-step) / <= 3 (thorough: plus a seeded sample of 500 "
          "3-step programs) over 22 step templates on a fixed cast: stock A (water+NaCl, symbolic amounts), empty 5 mL "
          "container B, 2x2 plate P with symbolic water per well; templates: transfer A->B, A->P[1,:], P[:,1]->B, "
          "P[1,1]->P[2,:], P[1,:]->P[2,:], A->C, C->B, A->P[:, :][1:2, 0:1] and P[1:2, 1:2][0:1, 1:2]->B (slices of slices); remove water from B / P[1,:] / P; fill_to B / P / P[1,:]; dilute "
          "A (plain and with new_name); create_container C; create_solution in water / with container A as solvent / with the recipe-created C "
          "as solvent; create_solution_from A. Every quantity, target and concentration in every step is symbolic; "
          "the first step is wrapped in a stage. Oracle: an eager interpreter threading a name->object map through "
          "Container/Plate static operations. Lite rounding model.")
OUTSIDE = ("IEEE rounding; programs longer than 3; casts other than the fixed one; step instruction texts (C19).")
ASSUMPTIONS = ["instruction-text helpers are replaced by non-forking summaries (subject of C19)",
               "numpy.linalg.solve replaced by its exact contract"]
EXPECT_OUTCOMES = ['ok', 'both-refuse']


def cells(tier, seed):
    out = []
    progs = R.programs(2)
    if tier == 'thorough':
        rng = random.Random(seed or 1)
        three = [p for p in R.programs(3) if len(p) == 3]
        rng.shuffle(three)
        progs = progs + three[:500]
    progs = list(progs) + [('fromAd',), ('fromAd', 'A>B'), ('A>B', 'fromAd'), ('fromAd', 'dilA'), ('sol2',), ('A>B', 'sol2')]
    for prog in progs:
        out.append({'id': 'prog/' + ','.join(prog), 'fn': 'h_prog', 'round': 'lite', 'max_paths': 400,
                    'cost': 2 ** len(prog), 'params': {'prog': list(prog)}})
    # the stock container A in a vessel of finite capacity (1 L): what a step creates from it must not inherit that
    for prog in [('fromA',), ('fromAd',), ('solA',), ('dilA',), ('A>B',), ('fromA', 'A>B')]:
        out.append({'id': 'capA/' + ','.join(prog), 'fn': 'h_prog', 'round': 'lite', 'max_paths': 400,
                    'cost': 2 ** len(prog), 'params': {'prog': list(prog), 'a_cap': '1000 mL'}})
    return out


def _fingerprint_equal(a, b):
    from ..symx import lift

    def same(x, y):
        if getattr(x, 'f', None) is not None or getattr(y, 'f', None) is not None:
            return lift(x) == lift(y)
        return x == y
    ca, cb = containers_of(a), containers_of(b)
    if len(ca) != len(cb):
        return False
    for x, y in zip(ca, cb):
        if x.name != y.name or set(x.contents) != set(y.contents):
            return False
        if not all(same(x.contents[s], y.contents[s]) for s in x.contents):
            return False
        if not same(x.volume, y.volume):
            return False
    return True


def h_prog(h):
    prog = h.p['prog']
    cast = Cast(h)
    Recipe = h.env.Recipe
    values = [cast.step_values(i, t) for i, t in enumerate(prog)]
    region = 'slice-fill' if 'fillS' in prog else ''

    # ---- the recipe
    decl = R.declared_for(prog)
    rec = Recipe().uses(*[cast.declared[k] for k in decl])
    placeholders = {}
    declared_snapshot = {k: deepcopy(v) for k, v in rec.results.items()}
    declared_ok = True
    for i, (t, v) in enumerate(zip(prog, values)):
        if i == 0:
            rec.start_stage('first')
        add_step(cast, rec, t, v, placeholders)
        if i == 0:
            rec.end_stage('first')
    # nothing happens before bake: the declared objects held by the recipe are unchanged
    for k, v in declared_snapshot.items():
        if not _fingerprint_equal(rec.results[k], v):
            declared_ok = False
    h.require('no-effect-before-bake', h.true(declared_ok), detail="adding steps changed a declared object before bake")
    try:
        baked = rec.bake()
        bake_exc = None
    except ValueError as e:
        baked, bake_exc = None, e

    # ---- the eager fold
    cur = {k: cast.declared[k] for k in decl}
    eager_exc = None
    try:
        for t, v in zip(prog, values):
            eager_step(cast, cur, t, v)
    except ValueError as e:
        eager_exc = e

    if bake_exc is not None or eager_exc is not None:
        h.outcome = 'both-refuse' if (bake_exc is not None and eager_exc is not None) else 'verdicts-differ'
        h.require('bake-raises-iff-fold-raises', h.true(bake_exc is not None and eager_exc is not None), region,
                  detail=f"bake: {type(bake_exc).__name__ if bake_exc else 'returned'} ({bake_exc}); "
                         f"eager fold: {type(eager_exc).__name__ if eager_exc else 'returned'} ({eager_exc})")
        return
    h.outcome = 'ok'
    h.require('result-names', h.true(set(baked) == set(cur)), region,
              detail=f"bake returned {sorted(baked)}, declared+created {sorted(cur)}")
    for name in cur:
        if name not in baked:
            continue
        got, want = containers_of(baked[name]), containers_of(cur[name])
        h.require('same-kind', h.true(len(got) == len(want) and type(baked[name]) is type(cur[name])), region)
        for g, w in zip(got, want):
            keys_ok = set(g.contents) == set(w.contents)
            h.require('same-substances', h.true(keys_ok), region,
                      detail=f"{name}/{g.name}: {sorted(s.name for s in g.contents)} vs {sorted(s.name for s in w.contents)}")
            if not keys_ok:
                continue
            for s in w.contents:
                h.require('same-amounts', h.eq(g.contents[s], w.contents[s], h.rs(4 * h.ulp)), region,
                          detail=f"{name}/{g.name}: amount of {s.name} after bake vs after the eager fold")
            h.require('same-volume', h.eq(g.volume, w.volume, h.rs(4 * h.ulp)), region, detail=f"{name}/{g.name}: volume")
            gm, wm = g.max_volume, w.max_volume
            if isinstance(gm, (int, float)) and isinstance(wm, (int, float)):
                cap_ok = h.true(gm == wm)
            else:
                cap_ok = h.eq(gm, wm)
            h.require('same-capacity', cap_ok, region, detail=f"{name}/{g.name}: capacity after bake {gm} vs after the eager fold {wm}")
