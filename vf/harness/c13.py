"""C13 — every documented way of addressing wells selects the documented wells (engine: CrossHair)."""
from __future__ import annotations

import json
import os

from .. import xhdriver
from ..driver import load_known

PROPERTY = 'C13'
TEMPLATE = os.path.join(os.path.dirname(os.path.dirname(os.path.abspath(__file__))), 'xh', 'c13_conditions.py')
PLATE_DESCR = ['1x1', '1x4', '3x1', '3x4', '28x1 (rows A..Z, AA, AB)', "custom rows i,ii,iii x cols a,b",
               "numeric-looking custom rows '3','1','2' x 3", "custom labels differing only in surrounding whitespace (' a','b ','a' x ' 1','1 ','1')"]
META = {
    'generator': 'vf/xh/c13_conditions.py',
    'explanation': ("Each condition is a function over symbolic integers / strings that applies the real Plate.__getitem__ "
                    "(pyplate.slicer.Slicer.__init__, parse_slice, resolve_labels, get) and compares the selected well names, in "
                    "order, with a 40-line independent reference model (1-based, labels = positions, inclusive stop, open "
                    "ends, positive step, row-major, list order, reject outside/malformed). CrossHair explores every path "
                    "of that function over ALL integers / all strings up to the stated length; 'Confirmed over all paths' "
                    "means the exploration was exhaustive, 'Not confirmed' that no counterexample was found within the "
                    "time budget (bug-hunting only, reported as such)."),
    'functions': ['pyplate/slicer.py:Slicer.__init__', 'pyplate/slicer.py:Slicer.parse_slice', 'pyplate/slicer.py:Slicer.resolve_labels',
                  'pyplate/slicer.py:Slicer.parse_single', 'pyplate/slicer.py:Slicer.parse_tuple', 'pyplate/slicer.py:Slicer.get',
                  'pyplate/pyplate.py:Plate.__init__', 'pyplate/pyplate.py:Plate.__getitem__', 'pyplate/pyplate.py:PlateSlicer.__init__'],
    'bounds': ("15 selector forms (row int; (r,c) ints; row slice with step; two slices; (row, stepped column slice); (slice, "
               "column); list of two (r,c) tuples; label / 'r:c' string; (label,label); (label,int) and its integer twin; "
               "label slice with step; list of two 'r:c' strings; a slice of a slice with non-negative relative bounds on 4 parent selections; 9 malformed shapes) x plates " + ', '.join(PLATE_DESCR) +
               "; integers unbounded (steps: symbolic up to 8, plus the concrete steps 9, 29, 1e6, 2^70), strings of length <= 3-4 over all of unicode."),
    'history': ("for the three custom-labelled plates every selector is first resolved on a twin plate of the same shape whose "
                "labels are the same strings in another order (result ignored)"),
    'outside': "negative relative indices and steps in slices of slices; labels containing ':'; plates other than the 8 listed.",
    'assumptions': ["numpy basic slicing with the resolved slice objects behaves like Python slicing (Slicer.get is executed, "
                    "CrossHair realises the slice bounds at the numpy boundary per path)"],
}


def main(args, seed):
    if args.replay:
        with open(args.replay) as f:
            payload = json.load(f)
        path = os.path.join(xhdriver.GEN, payload['module'])
        if not os.path.exists(path):
            k = int(payload['module'].split('_k')[1].split('.')[0])
            path = xhdriver.generate(TEMPLATE, f"c13_k{k}", [('0 <= k < N_PLATES', f"k == {k}")])
        out = xhdriver.replay_call(path, payload['call'])
        print(json.dumps({'call': payload['call'], 'result': out}))
        if out == 'false':
            print(f"VIOLATION property={PROPERTY} replay={args.replay}")
            return 1
        return 0
    plates = [3, 4, 5, 6, 7] if args.tier == 'quick' else list(range(8))
    timeout = 40 if args.tier == 'quick' else 300
    jobs = []
    for k in plates:
        path = xhdriver.generate(TEMPLATE, f"c13_k{k}", [('0 <= k < N_PLATES', f"k == {k}")])
        for fn, line in xhdriver.functions_in(path):
            if args.cell and args.cell not in f"{fn}/k{k}":
                continue
            jobs.append((path, fn, line, timeout))
    write = not args.cell and not args.no_evidence
    r = xhdriver.run_all(PROPERTY, jobs, args.j, META, args.tier, seed, known=load_known(), write=write)
    return r if write else r[0]
