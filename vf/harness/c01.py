"""C01 — transfers conserve every substance; wells that are neither source nor destination are untouched."""
from __future__ import annotations

from fractions import Fraction as Fr

from ..ref import Lib, PREFIX, split_unit
from .common import mk_container, set_volume

PROPERTY = 'C01'
BOUNDS = ("Container.transfer / Plate.transfer from arbitrary valid pre-states: every amount in every well symbolic "
          "(wells hold water+NaCl+lipase on the source side, water on the destination side), quantity symbolic in "
          "[0, 1e6] of its unit; units uL/mg (quick) + umol/U/mL/g/kU/mmol (thorough); plates 2x3 (and 1x1 sources); "
          "23 geometries: row->row, col->col, rect->rect, stepped, lists, 1->all, all->1, whole Plate on either side, "
          "container->plate/list, plate/slice->container, slices of slices (3), same plate disjoint (5, two with slices of slices) and overlapping (3), two distinct plates sharing a name, a replicate plate (same name and identical wells), container into "
          "itself; 'tight' cells assume 0 <= q < held in every addressed source well (one path per geometry), 'free' "
          "cells (2 wells) assume nothing about q so refusals and exact-depletion paths are explored too. Lite "
          "rounding model.")
OUTSIDE = ("IEEE rounding; plates larger than 2x3; more than 3 substances per well; capacities (wells are 1000 L so "
           "that the capacity check never interferes - capacity behaviour is C03).")
ASSUMPTIONS = ["pre-states satisfy the bookkeeping invariant volume = round(sum of content volumes) (checked as C10)",
               "instruction-text helpers are replaced by non-forking summaries (subject of C19)"]
EXPECT_OUTCOMES = ['ok']

SRC_MIX = ['water', 'NaCl', 'lipase']
S = slice

# name -> (kind, src selector, src cells, dst selector, dst cells, same_plate)
#   selectors: 'C' = a free-standing container, 'PLATE' = the whole Plate object, otherwise the item for plate[item]
GEOMS = {
    'row->row': ((1, S(None)), [(0, 0), (0, 1), (0, 2)], (2, S(None)), [(1, 0), (1, 1), (1, 2)], False),
    'col->col': ((S(None), 1), [(0, 0), (1, 0)], (S(None), 3), [(0, 2), (1, 2)], False),
    'rect->rect': ((S(1, 2), S(1, 2)), [(0, 0), (0, 1), (1, 0), (1, 1)], (S(1, 2), S(2, 3)), [(0, 1), (0, 2), (1, 1), (1, 2)], False),
    'stepped': ((1, S(1, None, 2)), [(0, 0), (0, 2)], (2, S(1, None, 2)), [(1, 0), (1, 2)], False),
    'lists': (['A:1', 'B:2'], [(0, 0), (1, 1)], [('A', 3), (2, 1)], [(0, 2), (1, 0)], False),
    'well->all': ('A:1', [(0, 0)], 'PLATE', [(r, c) for r in range(2) for c in range(3)], False),
    'all->well': (S(None), [(r, c) for r in range(2) for c in range(2)], 'B:2', [(1, 1)], False, (2, 2)),
    'plate->plate': ('PLATE', [(r, c) for r in range(2) for c in range(3)], 'PLATE', [(r, c) for r in range(2) for c in range(3)], False),
    'c->plate': ('C', None, 'PLATE', [(r, c) for r in range(2) for c in range(3)], False),
    'c->list': ('C', None, ['A:1', 'B:3'], [(0, 0), (1, 2)], False),
    'plate->c': ('PLATE', [(r, c) for r in range(2) for c in range(2)], 'C', None, False, (2, 2)),
    'col->c': ((S(None), 2), [(0, 1), (1, 1)], 'C', None, False),
    'same/row->row': ((1, S(None)), [(0, 0), (0, 1), (0, 2)], (2, S(None)), [(1, 0), (1, 1), (1, 2)], True),
    'same/well->row': ('A:1', [(0, 0)], (2, S(None)), [(1, 0), (1, 1), (1, 2)], True),
    'same/col->col': ((S(None), 1), [(0, 0), (1, 0)], (S(None), 3), [(0, 2), (1, 2)], True),
    'same/sub->row': (('SUB', (1, S(None)), (S(0, 1), S(0, 2))), [(0, 0), (0, 1)], (2, S(1, 2)), [(1, 0), (1, 1)], True),
    'same/row->sub': ((1, S(2, 3)), [(0, 1), (0, 2)], ('SUB', (S(None), S(None)), (S(1, 2), S(0, 2))), [(1, 0), (1, 1)], True),
    'same/col->well': ((S(None), 1), [(0, 0), (1, 0)], 'B:3', [(1, 2)], True),
    'same/row->well': ((1, S(None)), [(0, 0), (0, 1), (0, 2)], ('B', 2), [(1, 1)], True),
    'list1->row': (['B:2'], [(1, 1)], (1, S(None)), [(0, 0), (0, 1), (0, 2)], False),
    'row->list1': ((1, S(None)), [(0, 0), (0, 1), (0, 2)], [(2, 2)], [(1, 1)], False),
    'same/list1->row': (['B:2'], [(1, 1)], (1, S(None)), [(0, 0), (0, 1), (0, 2)], True),
    'samename/row->row': ((1, S(None)), [(0, 0), (0, 1), (0, 2)], (2, S(None)), [(1, 0), (1, 1), (1, 2)], False, (2, 3), 'P'),
    # a replicate plate: a second, distinct plate with the same name, labels and identical wells at the moment of the transfer
    'twin/row->row': ((1, S(None)), [(0, 0), (0, 1), (0, 2)], (2, S(None)), [(1, 0), (1, 1), (1, 2)], False, (2, 3), 'TWIN'),
    'overlap/row->same-row': ((1, S(None)), [(0, 0), (0, 1), (0, 2)], (1, S(None)), [(0, 0), (0, 1), (0, 2)], True),
    'overlap/shifted': ((1, S(1, 2)), [(0, 0), (0, 1)], (1, S(2, 3)), [(0, 1), (0, 2)], True),
    'overlap/well->row': ('A:1', [(0, 0)], (1, S(None)), [(0, 0), (0, 1), (0, 2)], True),
    'sub->c': (('SUB', (S(1, 2), S(2, 3)), (S(0, 1), S(1, 2))), [(0, 2)], 'C', None, False),
    'c->sub': ('C', None, ('SUB', (S(None), S(None)), (S(1, 2), S(0, 1))), [(1, 0)], False),
    'sub->sub': (('SUB', (1, S(None)), (S(0, 1), S(1, 3))), [(0, 1), (0, 2)], ('SUB', (S(None), S(None)), (S(1, 2), S(0, 2))), [(1, 0), (1, 1)], False),
    'self/c->c': ('C', None, 'SELF', None, True),
    'c->c': ('C', None, 'C', None, False),
}
FREE_GEOMS = {
    'free/row->row': ((1, S(None)), [(0, 0), (0, 1)], (1, S(None)), [(0, 0), (0, 1)], False),
    'free/c->row': ('C', None, (1, S(None)), [(0, 0), (0, 1)], False),
    'free/row->c': ((1, S(None)), [(0, 0), (0, 1)], 'C', None, False),
    'free/c->c': ('C', None, 'C', None, False),
}


def cells(tier, seed):
    out = []
    units = ['uL', 'mg'] if tier == 'quick' else ['uL', 'mL', 'mg', 'g', 'umol', 'mmol', 'U', 'kU']
    for g in GEOMS:
        for unit in units:
            out.append({'id': f"tight/{g}/{unit}", 'fn': 'h_conserve', 'round': 'lite', 'max_paths': 40, 'cost': 3,
                        'params': {'geom': g, 'unit': unit, 'tight': True, 'shape': (2, 3)}})
    for g in FREE_GEOMS:
        for unit in (units if tier == 'thorough' else ['uL', 'mg', 'U']):
            out.append({'id': f"{g}/{unit}", 'fn': 'h_conserve', 'round': 'lite', 'max_paths': 400, 'cost': 6,
                        'params': {'geom': g, 'unit': unit, 'tight': False, 'shape': (1, 2)}})
    return out


def select(plate, sel):
    """plate[sel], a slice of a slice for ('SUB', outer, inner), or the plate itself for 'PLATE'"""
    if isinstance(sel, str) and sel == 'PLATE':
        return plate
    if isinstance(sel, tuple) and len(sel) == 3 and sel[0] == 'SUB':
        outer = plate[sel[1]]
        _ = (outer.size, outer.shape)      # a caller may well look at the parent slice before slicing it again
        return outer[sel[2]]
    return plate[sel]


def _mk_plate(h, lib, name, shape, subs, lo, hi, tag=None):
    P = h.env.Plate(name, '1000 L', rows=shape[0], columns=shape[1])
    for r in range(shape[0]):
        for c in range(shape[1]):
            w = P.wells[r, c]
            for sname in subs:
                w.contents[lib[sname]] = h.real(f"{tag or name}{r + 1}{c + 1}.{sname}", lo, hi)
            set_volume(h, lib, w)
    return P


def _snapshot(obj):
    """list of (label, contents dict, volume) for a container or every well of a plate"""
    if hasattr(obj, 'wells'):
        return {(r, c): (dict(obj.wells[r, c].contents), obj.wells[r, c].volume)
                for r in range(obj.wells.shape[0]) for c in range(obj.wells.shape[1])}
    return {'c': (dict(obj.contents), obj.volume)}


def _same_value(a, b):
    fa, fb = getattr(a, 'f', None), getattr(b, 'f', None)
    if fa is not None or fb is not None:
        from ..symx import lift
        return lift(a) == lift(b)
    return a == b


def h_conserve(h):
    p = h.p
    C, Plate = h.env.Container, h.env.Plate
    geom = {**GEOMS, **FREE_GEOMS}[p['geom']]
    src_sel, src_cells, dst_sel, dst_cells, same = geom[:5]
    lib = Lib(h, SRC_MIX)
    prefix, base = split_unit(p['unit'])
    lo = Fr(1, 1000) if p['tight'] else 0
    hi = 10**6
    q = h.real('q', 0, 10**6)
    qb = q * PREFIX[prefix]
    quantity = f"{q} {p['unit']}"
    shape = tuple(geom[5]) if len(geom) > 5 else tuple(p['shape'])
    if src_sel != 'C' or dst_sel not in ('C', 'SELF'):
        hi = 10**4   # wells: keep the 1000 L capacity out of reach (1e4 U of enzyme are 10 L)

    # ---- pre-state
    objs = {}
    if src_sel == 'C':
        objs['src'] = mk_container(h, lib, 'src', SRC_MIX, lo=lo, hi=hi)
        src_arg = objs['src']
        src_wells = [objs['src']]
    else:
        objs['P'] = _mk_plate(h, lib, 'P', shape, SRC_MIX, lo, hi)
        src_arg = select(objs['P'], src_sel)
        src_wells = [objs['P'].wells[rc] for rc in src_cells]
    if dst_sel == 'SELF':
        dst_arg = objs['src']
    elif dst_sel == 'C':
        objs['dst'] = mk_container(h, lib, 'dst', ['water'], lo=lo, hi=hi)
        dst_arg = objs['dst']
    elif same:
        dst_arg = select(objs['P'], dst_sel)
    else:
        # (a geometry may ask for a destination plate that shares the source plate's *name*: two distinct plates)
        if len(geom) > 6 and geom[6] == 'TWIN':
            from copy import deepcopy
            objs['Q'] = deepcopy(objs['P'])
        else:
            objs['Q'] = _mk_plate(h, lib, geom[6] if len(geom) > 6 else 'Q', shape, ['water'], lo, hi, tag='Q')
        dst_arg = select(objs['Q'], dst_sel)

    n_dst = len(dst_cells) if dst_cells else 1
    if p['tight']:
        # every addressed source well holds strictly more than it has to give
        per_well = qb * (n_dst if len(src_wells) == 1 else 1)
        for w in src_wells:
            h.assume(h.lt(per_well, lib.total(w.contents, base)))

    before = {k: _snapshot(o) for k, o in objs.items()}

    # ---- the call
    try:
        if dst_sel in ('C', 'SELF'):
            r_src, r_dst = C.transfer(src_arg, dst_arg, quantity)
        else:
            r_src, r_dst = Plate.transfer(src_arg, dst_arg, quantity)
    except Exception as e:  # noqa: BLE001  (refusals and crashes are C03/C07; C01 speaks about performed transfers)
        h.outcome = 'raised:' + type(e).__name__
        return
    h.outcome = 'ok'

    # ---- which returned object corresponds to which input
    after = {}
    if src_sel == 'C':
        after['src'] = _snapshot(r_src)
    else:
        after['P'] = _snapshot(r_src)
    if dst_sel == 'SELF':
        after['dst(self)'] = _snapshot(r_dst)
    elif dst_sel == 'C':
        after['dst'] = _snapshot(r_dst)
    elif same:
        # one physical plate: the call returns it twice; both must be the same state
        a, b = _snapshot(r_src), _snapshot(r_dst)
        agree = all(set(a[k][0]) == set(b[k][0]) and all(_same_value(a[k][0][s], b[k][0][s]) for s in a[k][0])
                    for k in a)
        h.require('same-plate:both-returned-plates-agree', h.true(agree), region=p['geom'].split('/')[0])
        after['P'] = b
    else:
        after['Q'] = _snapshot(r_dst)

    region = p['geom'].split('/')[0] if '/' in p['geom'] else ''
    # ---- conservation per substance over all physical objects
    subs = set()
    for snap in list(before.values()) + list(after.values()):
        for contents, _ in snap.values():
            subs.update(contents)
    for s in sorted(subs, key=lambda x: x.name):
        tb = 0
        for k, snap in before.items():
            for contents, _ in snap.values():
                tb = tb + contents.get(s, 0)
        ta = 0
        for k, snap in after.items():
            if k == 'dst(self)':
                continue
            for contents, _ in snap.values():
                ta = ta + contents.get(s, 0)
        if dst_sel == 'SELF':
            # one physical container: both returned versions claim to be it; the later one (destination) must
            # hold what the container held, and the pair must not hold more than one container's worth
            td = 0
            for contents, _ in after['dst(self)'].values():
                td = td + contents.get(s, 0)
            h.require('conserved', h.eq(td, tb, h.rs(4 * h.ulp)), region='self',
                      detail=f"{s.name}: a container transferred into itself still holds what it held")
            continue
        n_round = 2 * max(len(src_wells), n_dst)
        h.require('conserved', h.eq(ta, tb, h.rs(n_round * h.ulp)), region=region,
                  detail=f"total {s.name} over source and destination is unchanged")
    # ---- untouched wells
    for k in before:
        if k not in after:
            continue
        touched = set()
        if k == 'P':
            touched |= set(src_cells or [])
            if same:
                touched |= set(dst_cells or [])
        if k == 'Q':
            touched |= set(dst_cells or [])
        if k in ('src', 'dst'):
            continue
        for cell_key, (contents, vol) in before[k].items():
            if cell_key in touched:
                continue
            ac, av = after[k][cell_key]
            same_c = set(ac) == set(contents) and all(_same_value(ac[s], contents[s]) for s in contents)
            h.require('bystander-wells-untouched', h.true(same_c and _same_value(av, vol)), region=region,
                      detail=f"well {cell_key} of {k} is neither source nor destination")
