"""Shared harness helpers: arbitrary valid pre-states, fingerprints, unit tables."""
from __future__ import annotations

import itertools
from fractions import Fraction as Fr

from ..ref import Lib, PREFIX, split_unit, LIB

AMT_HI = 10**6


def mk_container(h, lib: Lib, name: str, subs, cap=None, lo=0, hi=AMT_HI, lo_strict=False, tagp=None, fixed=None):
    """A container in an arbitrary valid state (one inductive step from any reachable state):
    symbolic amounts assigned directly, volume set by the bookkeeping invariant of C10
    (volume = round(sum of content volumes, internal precision))."""
    C = h.env.Container
    if cap is None:
        c = C(name)
    else:
        c = C(name, f"{cap} {h.env.config.volume_storage_unit}")
    for sname in subs:
        s = lib[sname]
        key = f"{tagp or name}.{sname}"
        if fixed is not None and key in fixed:
            a = h.const(fixed[key])
        else:
            a = h.real(key, lo, hi, lo_strict=lo_strict)
        c.contents[s] = a
    set_volume(h, lib, c)
    return c


def set_volume(h, lib, c):
    c.volume = round(lib.volume_storage(c.contents), h.env.config.internal_precision) if c.contents else 0.0


def unit_factor(lib, s, base):
    """base units per stored unit of s (exact)."""
    return lib.amount(s, Fr(1), base)


def held(lib, c, base):
    return lib.total(c.contents, base)


def quantity_units(tier):
    """(unit string) list for transfers: each base unit with 2 (quick) / 3-4 (thorough) prefixes."""
    if tier == 'quick':
        return ['uL', 'mL', 'mg', 'g', 'umol', 'mmol', 'U', 'kU']
    return ['nL', 'uL', 'mL', 'L', 'ug', 'mg', 'g', 'kg', 'nmol', 'umol', 'mmol', 'mol', 'mU', 'U', 'kU']


def fingerprint_container(c):
    """Structural fingerprint with value identity on terms (SymFloat terms compare by canonical form)."""
    return (c.name, tuple((s.name, _key(v)) for s, v in c.contents.items()), _key(c.volume), _key(c.max_volume),
            c.instructions)


def _key(v):
    f = getattr(v, 'f', None)
    if f is not None:
        return ('sym', f)
    return ('num', float(v))
