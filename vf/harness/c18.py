"""C18 — answers in user units do not depend on the internal storage configuration."""
from __future__ import annotations

import os
from fractions import Fraction as Fr

from ..env import get_env, REPO
from ..ref import PREFIX, split_unit

PROPERTY = 'C18'
BOUNDS = ("12 scenario scripts over the public API (construction, transfer by volume/mass/moles, create_solution with "
          "pure and container solvent incl. mass-based units, create_solution_from, dilute, fill_to, remove, "
          "container->plate transfer with plate observers, capacity refusal, a recipe with the three tracking queries), "
          "each executed twice in ONE path - under the shipped configuration (umol, uL, precision 10) and under an "
          "alternative module instance loaded with another pyplate.yaml - on the same symbolic inputs (amounts in "
          "[1, 1000] mL/mmol/g, concentrations in [1e-3, 5]); alternatives: moles_storage_unit in {mol, mmol, nmol}, "
          "volume_storage_unit in {L, mL, nL}, internal_precision 12 (thorough: + 8 and all 15 pairings). Outputs "
          "compared in user units only. Lite rounding model: internal roundings are the identity in both instances, so "
          "outputs must be equal and accept/refuse identical; the native companion run compares within the rounding "
          "of the coarser storage unit.")
OUTSIDE = ("IEEE rounding; differences confined to the boundary slack of the coarser storage unit (e.g. storing litres "
           "with 10 decimals resolves 1e-4 uL); display-unit settings; RecipeStep.dataframe/HTML renderings; default "
           "densities (C06).")
ASSUMPTIONS = ["Recipe._rounding_noise (the library's own bound on float rounding noise, the tolerance of get_substance_used's net-decrease test) is 0 in the real-number model, where roundings at internal precision are the identity; native companion runs use the real one",
               "each configuration is a separate import of /repo's pyplate package under its own PYPLATE_CONFIG directory "
               "(generated at run time under /verif/.cfg), shims installed in both",
               "instruction-text helpers are replaced by non-forking summaries (subject of C19)"]
EXPECT_OUTCOMES = ['ok']

VERIF = os.path.dirname(os.path.dirname(os.path.dirname(os.path.abspath(__file__))))
SCENARIOS = ['ctor', 'transfer_mL', 'transfer_mg', 'transfer_mmol', 'solution_pure', 'solution_container_mass',
             'solution_from', 'dilute', 'dilute_capacity', 'fill_to', 'remove', 'plate', 'capacity', 'recipe']


def config_dir(moles, volume, precision):
    tag = f"{moles}-{volume}-{precision}"
    d = os.path.join(VERIF, '.cfg', tag)
    path = os.path.join(d, 'pyplate.yaml')
    with open(os.path.join(REPO, 'pyplate', 'pyplate.yaml')) as f:
        text = f.read()
    out = []
    for line in text.splitlines():
        if line.startswith('internal_precision:'):
            line = f"internal_precision: {precision}"
        elif line.startswith('moles_storage_unit:'):
            line = f"moles_storage_unit: {moles}"
        elif line.startswith('volume_storage_unit:'):
            line = f"volume_storage_unit: {volume}"
        out.append(line)
    new = '\n'.join(out) + '\n'
    os.makedirs(d, exist_ok=True)
    if not os.path.exists(path) or open(path).read() != new:
        tmp = path + f".{os.getpid()}"
        with open(tmp, 'w') as f:
            f.write(new)
        os.replace(tmp, path)
    return d, tag


def cells(tier, seed):
    out = []
    alts = [('mol', 'uL', 10), ('mmol', 'uL', 10), ('nmol', 'uL', 10), ('umol', 'L', 10), ('umol', 'mL', 10),
            ('umol', 'nL', 10), ('umol', 'uL', 12), ('mol', 'L', 10)]
    if tier == 'thorough':
        alts += [(m, v, p) for m in ('mol', 'mmol', 'nmol') for v in ('L', 'mL', 'nL') for p in (10,) if (m, v) != ('mol', 'L')]
        alts += [('umol', 'uL', 8), ('mmol', 'mL', 12), ('mol', 'L', 8)]
    for (m, v, p) in alts:
        for sc in SCENARIOS:
            out.append({'id': f"{m}-{v}-{p}/{sc}", 'fn': 'h_compare', 'round': 'lite', 'max_paths': 300, 'cost': 3,
                        'params': {'alt': [m, v, p], 'scenario': sc}})
    return out


class Run:
    """one execution of a scenario under one module instance; observables are (label, value, kind, unit)"""

    def __init__(self, h, env, inputs):
        self.h, self.env, self.inp = h, env, inputs
        S = env.Substance
        self.water = S.liquid('water', h.const('18.0153'), h.const('1.0'))
        self.salt = S.solid('NaCl', h.const('58.4428'))
        self.dmso = S.liquid('DMSO', h.const('78.13'), h.const('1.1004'))
        self.obs = []

    def see_container(self, tag, c):
        self.obs.append((f"{tag}.volume[mL]", c.get_volume('mL'), 'vol', 'mL'))
        self.obs.append((f"{tag}.volume[uL]", c.get_volume('uL'), 'vol', 'uL'))
        # natively, a container emptied down to rounding residue has meaningless (noise / noise) concentrations
        residue_only = self.h.mode == 'native' and float(c.get_volume('mL')) < 1e-6
        for s in (self.water, self.salt, self.dmso):
            if s in c.contents and residue_only:
                self.obs.append((f"{tag}.{s.name}[residue]", 0, 'flag', ''))
            elif s in c.contents:
                for cu in ('M', 'mg/g'):
                    try:
                        self.obs.append((f"{tag}.{s.name}[{cu}]", c.get_concentration(s, cu), 'conc', cu))
                    except ZeroDivisionError:
                        # a container emptied down to rounding residue (amounts ~1e-10, volume rounds to 0): the
                        # concentration is undefined; both configurations may only differ within rounding here
                        self.obs.append((f"{tag}.{s.name}[{cu}]", 0, 'flag', ''))
            else:
                self.obs.append((f"{tag}.{s.name}[absent]", 0, 'flag', ''))

    def scenario(self, name):
        env, i = self.env, self.inp
        C, Plate, Recipe = env.Container, env.Plate, env.Recipe
        water, salt, dmso = self.water, self.salt, self.dmso
        a, b, q, c = i['a'], i['b'], i['q'], i['c']
        if name == 'ctor':
            x = C('x', f"{a + b} mL", [(water, f"{a} mL"), (salt, f"{b} mmol")])
            self.see_container('x', x)
        elif name.startswith('transfer_'):
            unit = name.split('_')[1]
            src = C('src', initial_contents=[(water, f"{a} mL"), (salt, f"{b} mmol"), (dmso, '3 g')])
            dst = C('dst', initial_contents=[(water, '1 mL')])
            s2, d2 = C.transfer(src, dst, f"{q} {unit}")
            self.see_container('src', s2)
            self.see_container('dst', d2)
        elif name == 'solution_pure':
            x = C.create_solution(salt, water, concentration=f"{c} M", total_quantity=f"{a} mL")
            self.see_container('x', x)
        elif name == 'solution_container_mass':
            solv = C('solv', initial_contents=[(water, f"{a} mL"), (dmso, f"{b} g")])
            rest, x = C.create_solution(salt, solv, concentration=f"{c} mg/g", total_quantity=f"{q} g")
            self.see_container('rest', rest)
            self.see_container('x', x)
        elif name == 'solution_from':
            stock = C.create_solution(salt, water, concentration='2 M', total_quantity=f"{a} mL")
            rest, x = C.create_solution_from(stock, salt, f"{c} M", dmso, f"{q} mL")
            self.see_container('rest', rest)
            self.see_container('x', x)
        elif name == 'dilute':
            x = C('x', initial_contents=[(water, f"{a} mL"), (salt, f"{b} mmol")])
            y = x.dilute(salt, f"{c} M", dmso)
            self.see_container('y', y)
        elif name == 'dilute_capacity':
            # a vessel of finite capacity: whether the diluted solution fits must not depend on the configuration
            x = C('x', f"{q} mL", initial_contents=[(water, f"{a} mL"), (salt, f"{b} mmol")])
            y = x.dilute(salt, f"{c} M", dmso)
            self.see_container('y', y)
        elif name == 'fill_to':
            x = C('x', f"{a + 2000} mL", initial_contents=[(water, f"{a} mL"), (salt, f"{b} mmol")])
            y = x.fill_to(dmso, f"{q} g")
            self.see_container('y', y)
        elif name == 'remove':
            x = C('x', initial_contents=[(water, f"{a} mL"), (salt, f"{b} mmol"), (dmso, f"{q} mg")])
            self.see_container('y', x.remove(water))
            self.see_container('z', x.remove(env.Substance.SOLID))
        elif name == 'plate':
            src = C('src', initial_contents=[(water, f"{a} mL"), (salt, f"{b} mmol")])
            P = Plate('P', '5 mL', rows=1, columns=2)
            s2, P2 = Plate.transfer(src, P, f"{q} uL")
            self.see_container('src', s2)
            v = P2.get_volumes(unit='uL')
            m = P2.get_moles(salt, unit='umol')
            for k in range(2):
                self.obs.append((f"P.volumes[{k}][uL]", v[0, k], 'out', 'uL'))
                self.obs.append((f"P.moles[{k}][umol]", m[0, k], 'out', 'umol'))
            self.obs.append(("P.volume[uL]", P2.get_volume('uL'), 'out', 'uL'))
        elif name == 'capacity':
            x = C('x', f"{a} mL", initial_contents=[(water, f"{b} mL")])
            src = C('src', initial_contents=[(water, '5000 mL')])
            s2, y = C.transfer(src, x, f"{q} mL")
            self.see_container('y', y)
        elif name == 'recipe':
            A = C('A', initial_contents=[(water, f"{a} mL"), (salt, f"{b} mmol")])
            B = C('B', '3000 mL')
            r = Recipe().uses(A, B)
            r.transfer(A, B, f"{q} mL")
            r.start_stage('fill')
            r.fill_to(B, dmso, '2500 mL')
            r.end_stage('fill')
            res = r.bake()
            self.see_container('A', res['A'])
            self.see_container('B', res['B'])
            self.obs.append(("used(salt)[mmol]", r.get_substance_used(salt, unit='mmol', destinations=[B]), 'out', 'mmol'))
            self.obs.append(("used(dmso,fill)[g]", r.get_substance_used(dmso, 'fill', unit='g', destinations=[B]), 'out', 'g'))
            # the same answers read out in finer units (a resolution lost inside the tracking code shows here first)
            self.obs.append(("used(salt)[umol]", r.get_substance_used(salt, unit='umol', destinations=[B]), 'fine', 'umol'))
            self.obs.append(("used(dmso,fill)[mg]", r.get_substance_used(dmso, 'fill', unit='mg', destinations=[B]), 'fine', 'mg'))
            fl = r.get_container_flows(A, unit='mL')
            self.obs.append(("flows(A).out[mL]", fl['out'], 'out', 'mL'))
            self.obs.append(("flows(A).in[mL]", fl['in'], 'out', 'mL'))
            self.obs.append(("remaining(B)[g]", r.get_amount_remaining(B, unit='g'), 'raw', 'g'))
        else:
            raise KeyError(name)


def h_compare(h):
    p = h.p
    m, v, prec = p['alt']
    base = get_env()
    d, tag = config_dir(m, v, prec)
    alt = get_env(d, tag)
    for e in (base, alt):
        e.set_symbolic(h.mode == 'sym')
    inputs = {'a': h.real('a', 1, 1000), 'b': h.real('b', 1, 1000), 'q': h.real('q', 1, 3000),
              'c': h.real('c', Fr(1, 1000), 5)}
    runs = []
    verdicts = []
    for env in (base, alt):
        env.clear_caches()
        r = Run(h, env, inputs)
        try:
            r.scenario(p['scenario'])
            verdicts.append('ok')
        except ValueError as e:
            verdicts.append('ValueError')
        except Exception as e:  # noqa: BLE001
            verdicts.append(type(e).__name__)
        runs.append(r)
    h.outcome = 'ok'
    # on an exact boundary witness float rounding may flip one of the two decisions: confirm-only in the companion run
    h.require('same-verdict', h.true(verdicts[0] == verdicts[1]), companion=False,
              detail=f"{p['scenario']}: shipped configuration -> {verdicts[0]}, ({m}, {v}, {prec}) -> {verdicts[1]}")
    h.require('no-crash', h.true(all(x in ('ok', 'ValueError') for x in verdicts)),
              detail=f"{p['scenario']}: {verdicts}")
    if verdicts != ['ok', 'ok']:
        return
    oa, ob = runs[0].obs, runs[1].obs
    h.require('same-observables', h.true([x[0] for x in oa] == [x[0] for x in ob]), companion=False)
    # coarser resolution of the two configurations, expressed in base units
    def res(env, kind):
        pfx = env.mol_prefix if kind == 'mol' else env.vol_prefix
        return Fr(1, 10 ** env.config.internal_precision) * PREFIX[pfx]
    vol_res = max(res(base, 'vol'), res(alt, 'vol'))
    mol_res = max(res(base, 'mol'), res(alt, 'mol'))
    for (label, xa, kind, unit), (_, xb, kindb, _) in zip(oa, ob):
        if kind == 'flag' or kindb == 'flag':
            continue
        if kind == 'vol':
            slack = h.rs(40 * vol_res / PREFIX[unit[:-1]] + 40 * mol_res * 10**5 / PREFIX[unit[:-1]] / 1000)
        elif kind == 'conc':
            slack = h.rs(Fr(1, 10**4))
        elif kind == 'out':
            dig = base.config.precisions.get(unit, base.config.precisions['default'])
            slack = h.rs(Fr(1, 10**dig) + Fr(1, 10**3))
        elif kind == 'fine':
            # one unit in the last displayed place plus 100 roundings at the coarser storage resolution (a mole of any
            # substance of the library weighs / fills less than 200 g / mL); no relative term
            dig = base.config.precisions.get(unit, base.config.precisions['default'])
            pfx, ubase = split_unit(unit)
            err = {'mol': 100 * mol_res, 'g': 100 * mol_res * 200, 'L': 100 * (vol_res + mol_res * Fr(1, 5))}[ubase]
            slack = h.rs(Fr(1, 10**dig) + err / PREFIX[pfx])
        else:
            slack = h.rs(Fr(1, 10**3))
        # relative resolution of the coarser configuration on the smallest amounts the scenarios handle
        # (1 mg of DMSO = 1.3e-5 mol, 1 uL = 1e-6 L)
        rel = h.rs(Fr(1, 10**5) + 100 * mol_res / Fr(1, 10**5) + 100 * vol_res / Fr(1, 10**6))
        if kind != 'fine' and h.mode == 'native' and isinstance(xa, (int, float)) and isinstance(xb, (int, float)):
            slack = float(slack) + float(rel) * max(abs(float(xa)), abs(float(xb)))
        h.require('same-answer', h.eq(xa, xb, slack), region=kind,
                  detail=f"{p['scenario']}: {label} differs between the shipped configuration and ({m}, {v}, {prec})")
