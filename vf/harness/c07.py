"""C07 — plate operations act well-by-well on exactly the addressed wells."""
from __future__ import annotations

from copy import deepcopy
from fractions import Fraction as Fr

from ..ref import Lib, PREFIX, split_unit
from .common import mk_container, set_volume
from .c01 import GEOMS, select

PROPERTY = 'C07'
BOUNDS = ("Plate / slice operations on 2x3 plates (2x2 for many-to-one) with non-uniform symbolic well contents "
          "(water+NaCl+lipase on the source side, water on the destination side) and a symbolic quantity: transfer "
          "over the 18 non-overlapping geometries of C01 (incl. 3 with slices of slices) (row/col/rect/stepped/list/1->all/all->1/whole Plate either "
          "side/container->plate,list/plate,col->container/same plate disjoint) in uL and mg; remove (water, SOLID, "
          "ENZYME) and fill_to (uL, mg, umol) on plate/row/col/rect/stepped/well/list/slice-of-slice selections and on 'row:col' label strings of a plate whose labels are digit strings different from their positions; each also as a "
          "recipe step through bake, alone and after an earlier step that changed every well of the plate; 12 shape combinations that must be rejected. Oracle: the same stand-alone "
          "Container operation applied to free-standing copies of the addressed wells, folded in row-major order, "
          "executed symbolically by the same engine. Lite rounding model; 'tight' precondition q < held per source well. "
          "transfer-precision cells: delta rounding model, pinned decimal well contents, quantities of 0-1 nL / nmol with 13 decimals.")
OUTSIDE = ("IEEE rounding; overlapping source/destination regions (C01 known finding); plates larger than 2x3; failure "
           "part-way through a multi-well operation (C04).")
ASSUMPTIONS = ["instruction-text helpers are replaced by non-forking summaries (subject of C19)"]
EXPECT_OUTCOMES = ['ok']

S = slice
SEL = {
    'plate': ('PLATE', [(r, c) for r in range(2) for c in range(3)]),
    'row': ((2, S(None)), [(1, 0), (1, 1), (1, 2)]),
    'col': ((S(None), 'B' if False else 2), [(0, 1), (1, 1)]),
    'rect': ((S(1, 2), S(2, 3)), [(0, 1), (0, 2), (1, 1), (1, 2)]),
    'stepped': ((S(None), S(1, None, 2)), [(0, 0), (0, 2), (1, 0), (1, 2)]),
    'well': ('B:3', [(1, 2)]),
    'tuple': (('A', 2), [(0, 1)]),
    'list': (['A:3', (2, 1)], [(0, 2), (1, 0)]),
    'rowlabel': ('B', [(1, 0), (1, 1), (1, 2)]),
    'sub': (('SUB', (S(None), S(2, 3)), (S(0, 2), S(1, 2))), [(0, 2), (1, 2)]),
    'sublist': (('SUB', ['A:1', 'B:2', 'A:3'], S(1, None)), [(1, 1), (0, 2)]),
    # plates with custom labels that are digit strings different from their positions (rows '2','1'; columns '30','10','20'):
    # a 'row:col' string names labels, never positions
    'labwell': ('1:10', [(1, 1)]),
    'lablist': (['2:30', ('1', '20')], [(0, 0), (1, 2)]),
}
LABELS = (['2', '1'], ['30', '10', '20'])
BAD_SHAPES = [  # (src item, dst item) on two 2x3 plates: neither 1->N, N->1 nor equal shapes
    ((1, S(None)), (S(None), 1)), ((S(None), S(1, 2)), (1, S(None))), (S(None), (1, S(None))),
    ((1, S(1, 2)), (1, S(None))), ((S(None), 1), (1, S(1, 2))), (['A:1', 'B:2'], (1, S(1, 2))),
    ((1, S(1, 2)), ['A:1', 'B:2', 'A:3']), ((S(None), S(1, 2)), (S(None), S(None))), ((1, S(None)), (S(None), S(1, 2))),
    (['A:1', 'A:2', 'A:3'], ['B:1', 'B:2']), ((S(None), 1), (S(None), S(2, 3))), ((1, S(None)), ['A:1', 'A:2', 'A:3']),
]


def cells(tier, seed):
    out = []
    units = ['uL', 'mg'] if tier == 'quick' else ['uL', 'mg', 'mmol', 'U']
    for g, spec in GEOMS.items():
        if g.startswith(('overlap', 'self', 'c->c')):
            continue
        for unit in units:
            for via in (['direct', 'recipe'] if (tier == 'thorough' or unit == 'uL') else ['direct']):
                out.append({'id': f"transfer/{g}/{unit}/{via}", 'fn': 'h_transfer', 'round': 'lite', 'max_paths': 60,
                            'cost': 4, 'params': {'geom': g, 'unit': unit, 'via': via}})
    # quantities below the resolution of the *base* units but well inside the library's own resolution (storage units):
    # delta rounding model, pinned well contents (linear arithmetic), a symbolic quantity with many decimals
    # (one source dispensing into several wells is left to the lite model: the second draw divides by a volume that carries
    #  the first draw's rounding errors, and those nonlinear queries do not finish)
    for g in (['c->sub', 'row->row', 'col->c', 'same/row->row'] if tier == 'quick' else
              ['c->sub', 'row->row', 'col->c', 'same/row->row', 'lists', 'all->well', 'sub->sub', 'sub->c']):
        for unit in ['nL', 'nmol'] + (['ug'] if tier == 'thorough' else []):
            out.append({'id': f"transfer-precision/{g}/{unit}", 'fn': 'h_transfer', 'round': 'delta', 'max_paths': 60,
                        'cost': 4, 'params': {'geom': g, 'unit': unit, 'via': 'direct', 'delta': True, 'q_hi': 1,
                                              'pin': _pin()}})
    for sel in SEL:
        for what in (['water', 'SOLID', 'ENZYME'] if tier == 'thorough' else ['water', 'SOLID']):
            for via in ['direct', 'recipe', 'recipe2']:
                out.append({'id': f"remove/{sel}/{what}/{via}", 'fn': 'h_remove', 'round': 'lite', 'max_paths': 40,
                            'cost': 2, 'params': {'sel': sel, 'what': what, 'via': via}})
        for unit in (['uL', 'mg', 'umol'] if tier == 'thorough' else ['uL', 'mg']):
            for via in (['direct', 'recipe', 'recipe2'] if unit == 'uL' or tier == 'thorough' else ['direct', 'recipe']):
                out.append({'id': f"fill_to/{sel}/{unit}/{via}", 'fn': 'h_fill_to', 'round': 'lite', 'max_paths': 200,
                            'cost': 3, 'params': {'sel': sel, 'unit': unit, 'via': via}})
    for i in range(len(BAD_SHAPES)):
        out.append({'id': f"shape-rule/{i}", 'fn': 'h_shape_rule', 'round': 'lite', 'max_paths': 10, 'params': {'i': i}})
    return out


def _pin():
    """decimal contents for every well / container a transfer cell may build (pinned inputs, see H.real)"""
    pin = {}
    base = {'water': 5550.84351, 'NaCl': 100.0000001, 'lipase': 25.05}
    k = 0
    for name in ['P', 'Q']:
        for r in range(2):
            for c in range(3):
                k += 1
                for sname, v in base.items():
                    pin[f"{name}{r + 1}{c + 1}.{sname}"] = repr(round(v * (1 + k / 7), 7))
    for name in ['src', 'dst']:
        for sname, v in base.items():
            pin[f"{name}.{sname}"] = repr(round(v * (11 if name == 'src' else 3), 7))
    return pin


def _mk_plate(h, lib, name, shape, subs, lo=Fr(1, 1000), hi=10**4, labelled=False):
    if labelled:
        assert shape == (2, 3)
        P = h.env.Plate(name, '1000 L', rows=list(LABELS[0]), columns=list(LABELS[1]))
    else:
        P = h.env.Plate(name, '1000 L', rows=shape[0], columns=shape[1])
    for r in range(shape[0]):
        for c in range(shape[1]):
            w = P.wells[r, c]
            for sname in subs:
                w.contents[lib[sname]] = h.real(f"{name}{r + 1}{c + 1}.{sname}", lo, hi)
            set_volume(h, lib, w)
    return P


def _standalone(h, well):
    """free-standing container with the well's name, capacity, contents and volume"""
    c = deepcopy(well)
    return c


def _require_same(h, label, got, want, region='', detail=''):
    keys_ok = set(got.contents) == set(want.contents)
    h.require(f'{label}:keys', h.true(keys_ok), region, detail=detail + ' (substances)')
    if not keys_ok:
        return
    for s, a in want.contents.items():
        h.require(f'{label}:amount', h.eq(got.contents[s], a, h.rs(h.ulp)), region, detail=detail + f' ({s.name})')
    h.require(f'{label}:volume', h.eq(got.volume, want.volume, h.rs(h.ulp)), region, detail=detail + ' (volume)')


def _untouched(h, label, before, after, skip, region=''):
    from ..symx import lift

    def same(a, b):
        if getattr(a, 'f', None) is not None or getattr(b, 'f', None) is not None:
            return lift(a) == lift(b)
        return a == b
    for r in range(before.wells.shape[0]):
        for c in range(before.wells.shape[1]):
            if (r, c) in skip:
                continue
            b, a = before.wells[r, c], after.wells[r, c]
            ok = set(a.contents) == set(b.contents) and all(same(a.contents[s], b.contents[s]) for s in b.contents) \
                and same(a.volume, b.volume) and a.name == b.name
            h.require(f'{label}:other-wells-identical', h.true(ok), region, detail=f"well {(r, c)} is not addressed")


def h_transfer(h):
    p = h.p
    C, Plate, Recipe = h.env.Container, h.env.Plate, h.env.Recipe
    geom = GEOMS[p['geom']]
    src_sel, src_cells, dst_sel, dst_cells, same = geom[:5]
    shape = tuple(geom[5]) if len(geom) > 5 else (2, 3)
    mix = ['water', 'NaCl', 'lipase']
    lib = Lib(h, mix)
    prefix, base = split_unit(p['unit'])
    q = h.real('q', 0, p.get('q_hi', 10**6))
    if p.get('delta'):
        # more decimals than the library keeps in base units, whatever value the solver picks
        q = q + h.const('0.0000123456789')
    qb = q * PREFIX[prefix]
    quantity = f"{q} {p['unit']}"
    objs = {}
    if src_sel == 'C':
        objs['src'] = mk_container(h, lib, 'src', mix, lo=Fr(1, 1000), hi=10**6)
        src_wells = [objs['src']]
    else:
        objs['P'] = _mk_plate(h, lib, 'P', shape, mix)
        src_wells = [objs['P'].wells[rc] for rc in src_cells]
    if dst_sel == 'C':
        objs['dst'] = mk_container(h, lib, 'dst', ['water'], lo=Fr(1, 1000), hi=10**6)
        dst_wells = [objs['dst']]
    elif same:
        dst_wells = [objs['P'].wells[rc] for rc in dst_cells]
    else:
        objs['Q'] = _mk_plate(h, lib, 'Q', shape, ['water'])
        dst_wells = [objs['Q'].wells[rc] for rc in dst_cells]
    n_src, n_dst = len(src_wells), len(dst_wells)
    per_well = qb * (n_dst if n_src == 1 else 1)
    for w in src_wells:
        h.assume(h.lt(per_well, lib.total(w.contents, base)))

    def arg(sel, key):
        if sel == 'C':
            return objs[key]
        plate = objs['P'] if (key == 'P' or same) else objs['Q']
        return select(plate, sel)

    src_arg = arg(src_sel, 'src' if src_sel == 'C' else 'P')
    dst_arg = arg(dst_sel, 'dst' if dst_sel == 'C' else 'Q')

    # ---- oracle: fold of the stand-alone operation, row-major
    o_src = [_standalone(h, w) for w in src_wells]
    o_dst = [_standalone(h, w) for w in dst_wells]
    try:
        if n_src == 1:
            for j in range(n_dst):
                o_src[0], o_dst[j] = C.transfer(o_src[0], o_dst[j], quantity)
        elif n_dst == 1:
            for i in range(n_src):
                o_src[i], o_dst[0] = C.transfer(o_src[i], o_dst[0], quantity)
        else:
            for i in range(n_src):
                o_src[i], o_dst[i] = C.transfer(o_src[i], o_dst[i], quantity)
    except ValueError:
        h.outcome = 'oracle-refused'
        return

    # ---- the plate operation
    if p['via'] == 'direct':
        if dst_sel == 'C':
            r_src, r_dst = C.transfer(src_arg, dst_arg, quantity)
        else:
            r_src, r_dst = Plate.transfer(src_arg, dst_arg, quantity)
    else:
        rec = Recipe().uses(*objs.values())
        rec.transfer(src_arg, dst_arg, quantity)
        res = rec.bake()
        r_src = res['src'] if src_sel == 'C' else res['P']
        r_dst = res['dst'] if dst_sel == 'C' else (res['P'] if same else res['Q'])
    h.outcome = 'ok'
    region = p['via']
    if p['via'] == 'direct':
        # the same call again with the very same argument objects (slices included) must give the same answer
        if dst_sel == 'C':
            r_src2, r_dst2 = C.transfer(src_arg, dst_arg, quantity)
        else:
            r_src2, r_dst2 = Plate.transfer(src_arg, dst_arg, quantity)
        for a_, b_ in ((r_src, r_src2), (r_dst, r_dst2)):
            for wa, wb in zip([a_] if isinstance(a_, C) else list(a_.wells.flatten()),
                              [b_] if isinstance(b_, C) else list(b_.wells.flatten())):
                _require_same(h, 'transfer:repeatable', wb, wa, region, "repeating the call with the same arguments")
    got_src = [r_src] if src_sel == 'C' else [r_src.wells[rc] for rc in src_cells]
    got_dst = [r_dst] if dst_sel == 'C' else [r_dst.wells[rc] for rc in dst_cells]
    for i, (g, w) in enumerate(zip(got_src, o_src)):
        _require_same(h, 'transfer:source-well', g, w, region, f"source well #{i} equals the stand-alone transfer")
    for j, (g, w) in enumerate(zip(got_dst, o_dst)):
        _require_same(h, 'transfer:destination-well', g, w, region, f"destination well #{j} equals the stand-alone transfer")
    if src_sel != 'C':
        _untouched(h, 'transfer', objs['P'], r_src, set(src_cells) | (set(dst_cells) if same else set()), region)
    if dst_sel != 'C':
        _untouched(h, 'transfer', objs['P'] if same else objs['Q'], r_dst,
                   set(dst_cells) | (set(src_cells) if same else set()), region)
    h.require('transfer:returns-plates', h.true((src_sel == 'C') == isinstance(r_src, C) and (dst_sel == 'C') == isinstance(r_dst, C)),
              region)


def _what(h, lib, name):
    S_ = h.env.Substance
    return {'water': lib['water'], 'SOLID': S_.SOLID, 'ENZYME': S_.ENZYME, 'LIQUID': S_.LIQUID}[name]


def _pre_step(h, lib, P):
    """an earlier recipe step that changes every well of the plate: a stock of DMSO dispensed into the whole plate.
    Returns (stock, quantity string, {rc: stand-alone well after that step})"""
    C = h.env.Container
    stock = C('stock')
    stock.contents[lib['DMSO']] = h.real('stock.DMSO', 10**5, 10**6)
    set_volume(h, lib, stock)
    q0 = h.real('q0', Fr(1, 100), 100)
    quantity = f"{q0} uL"
    cur = _standalone(h, stock)
    wells = {}
    for r in range(P.wells.shape[0]):
        for c in range(P.wells.shape[1]):
            cur, wells[(r, c)] = C.transfer(cur, _standalone(h, P.wells[r, c]), quantity)
    return stock, quantity, wells


def _others_equal(h, label, R, expected, skip, region):
    for rc, w in expected.items():
        if rc in skip:
            continue
        _require_same(h, f'{label}:other-wells', R.wells[rc], w, region, f"well {rc} is not addressed by the step under test")


def h_remove(h):
    p = h.p
    Recipe = h.env.Recipe
    lib = Lib(h, ['water', 'NaCl', 'lipase', 'DMSO'])
    P = _mk_plate(h, lib, 'P', (2, 3), ['water', 'NaCl', 'lipase'], lo=0, labelled=p['sel'].startswith('lab'))
    item, addressed = SEL[p['sel']]
    what = _what(h, lib, p['what'])
    target = select(P, item)
    if p['via'] == 'recipe2':
        # the step under test comes second: it must act on the plate as the first step left it
        stock, q0, pre = _pre_step(h, lib, P)
        oracle = {rc: pre[rc].remove(what) for rc in addressed}
        rec = Recipe().uses(stock, P)
        rec.transfer(stock, P, q0)
        rec.remove(target, what)
        R = rec.bake()['P']
        h.outcome = 'ok'
        for rc in addressed:
            _require_same(h, 'remove:addressed-well', R.wells[rc], oracle[rc], p['via'], f"well {rc} equals Container.remove")
        _others_equal(h, 'remove', R, pre, set(addressed), p['via'])
        return
    oracle = {rc: _standalone(h, P.wells[rc]).remove(what) for rc in addressed}
    if p['via'] == 'direct':
        R = target.remove(what)
    else:
        rec = Recipe().uses(P)
        rec.remove(target, what)
        R = rec.bake()['P']
    h.outcome = 'ok'
    for rc in addressed:
        _require_same(h, 'remove:addressed-well', R.wells[rc], oracle[rc], p['via'], f"well {rc} equals Container.remove")
    _untouched(h, 'remove', P, R, set(addressed), p['via'])


def h_fill_to(h):
    p = h.p
    Recipe = h.env.Recipe
    lib = Lib(h, ['water', 'NaCl', 'lipase', 'DMSO'])
    P = _mk_plate(h, lib, 'P', (2, 3), ['water', 'NaCl'], lo=Fr(1, 1000), hi=10**3, labelled=p['sel'].startswith('lab'))
    item, addressed = SEL[p['sel']]
    prefix, base = split_unit(p['unit'])
    T = h.real('T', 0, 10**6)
    # keep the fold single-path: the target is above what every addressed well holds.  Through a recipe, bake also
    # builds an instruction text that groups wells by the (rounded) amount added; requiring at least ~1 mL to be
    # added to every well keeps its "rounded amount == 0" tests decided instead of forking per well.
    margin = {'L': Fr(1, 1000), 'g': Fr(1), 'mol': Fr(1, 10)}[base] if p['via'] != 'direct' else 0
    wells = addressed if p['via'] == 'direct' else [(r, c) for r in range(2) for c in range(3)]
    for rc in wells:
        h.assume(h.gt(T * PREFIX[prefix], lib.total(P.wells[rc].contents, base) + margin))
    water = lib['water']
    target = select(P, item)
    quantity = f"{T} {p['unit']}"
    region = p['via'] + ('/slice' if item != 'PLATE' else '/plate')
    pre = None
    if p['via'] == 'recipe2':
        stock, q0, pre = _pre_step(h, lib, P)
        for rc in pre:
            h.assume(h.gt(T * PREFIX[prefix], lib.total(pre[rc].contents, base) + margin))
        oracle = {rc: pre[rc].fill_to(water, quantity) for rc in addressed}
    else:
        oracle = {rc: _standalone(h, P.wells[rc]).fill_to(water, quantity) for rc in addressed}
    if p['via'] == 'direct':
        R = target.fill_to(water, quantity)
    else:
        rec = Recipe().uses(P) if pre is None else Recipe().uses(stock, P)
        if pre is not None:
            rec.transfer(stock, P, q0)
        rec.fill_to(target, water, quantity)
        try:
            R = rec.bake()['P']
        except ValueError as e:
            h.outcome = 'ok'
            h.fail('fill_to:recipe-step-performed', f"bake refused a fill_to that every addressed well accepts: {e}", region)
            return
    h.outcome = 'ok'
    for rc in addressed:
        _require_same(h, 'fill_to:addressed-well', R.wells[rc], oracle[rc], region, f"well {rc} equals Container.fill_to")
    if pre is None:
        _untouched(h, 'fill_to', P, R, set(addressed), region)
    else:
        _others_equal(h, 'fill_to:other-wells-identical', R, pre, set(addressed), region)


def h_shape_rule(h):
    Plate = h.env.Plate
    lib = Lib(h, ['water'])
    P = _mk_plate(h, lib, 'P', (2, 3), ['water'], lo=1, hi=10**3)
    Q = h.env.Plate('Q', '1000 L', rows=2, columns=3)
    a, b = BAD_SHAPES[h.p['i']]
    try:
        Plate.transfer(P[a], Q[b], '0.001 uL')
        h.fail('shape-rule:rejected', f"transfer {a!r} -> {b!r} was accepted")
    except ValueError:
        h.require('shape-rule:rejected', h.true(True))
    except Exception as e:  # noqa: BLE001
        h.fail('shape-rule:rejected', f"transfer {a!r} -> {b!r} raised {type(e).__name__}: {e}")
    h.outcome = 'ok'
