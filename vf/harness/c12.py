"""C12 — create_solution_from dilutes a stock as requested and conserves material."""
from __future__ import annotations

from fractions import Fraction as Fr

from ..ref import Lib, PREFIX, split_unit
from .common import mk_container
from .c05 import conc_def, _det

PROPERTY = 'C12'
BOUNDS = ("Container.create_solution_from on a stock of 2-3 symbolic components (amounts in [1e3, 1e6] umol: below that the library itself keeps only 4-5 significant digits of moles; solute NaCl or DMSO in water, optional "
          "third component Na2SO4 or an enzyme bystander) (4 cells keep it in a vessel of symbolic finite capacity), solvent = pure water / DMSO / triethylamine or a container "
          "(water, with or without some solute, symbolic amounts), target concentration symbolic in [1e-6, 1e3] in M, "
          "mol/L, mmol/mL, g/L, mg/mL, g/g, mg/g, mol/mol, mol/kg(m), L/L(liquid solute), g/mol, mol/g; quantity symbolic in "
          "[1e-6, 1e5] in mL, L, g, mg, mol, mmol. Lite rounding model; numpy.linalg.solve = exact contract.")
OUTSIDE = ("IEEE rounding and LAPACK error; enzyme solutes (the library rejects activity numerators here); stocks with "
           "more than 3 components.")
ASSUMPTIONS = ["numpy.linalg.solve replaced by: singular -> LinAlgError, otherwise the unique solution (Cramer's rule)",
               "instruction-text helpers are replaced by non-forking summaries (subject of C19)"]
EXPECT_OUTCOMES = ['ok', 'refused']


def cells(tier, seed):
    out = []
    concs = ['M', 'g/L', 'mg/g', 'mol/mol', 'm', 'mmol/mL', 'mg/mL', 'g/g', 'g/mol', 'mol/g', 'mol/L']
    qunits = ['mL', 'g', 'mmol'] if tier == 'quick' else ['mL', 'L', 'g', 'mg', 'mol', 'mmol']
    # (stock name, stock components, solute, solvent spec)
    variants = [
        ('binary/water', ['NaCl', 'water'], 'NaCl', 'water'),
        ('binary/DMSO', ['NaCl', 'water'], 'NaCl', 'DMSO'),
        ('ternary/water', ['NaCl', 'water', 'Na2SO4'], 'NaCl', 'water'),
        ('binary/container', ['NaCl', 'water'], 'NaCl', ('container', ['water'])),
        ('binary/container+solute', ['NaCl', 'water'], 'NaCl', ('container', ['water', 'NaCl'])),
        ('liquid-solute/water', ['DMSO', 'water'], 'DMSO', 'water'),
        ('enzyme-bystander/water', ['NaCl', 'water', 'lipase'], 'NaCl', 'water'),
        ('liquid-solute/container+solute', ['DMSO', 'water'], 'DMSO', ('container', ['water', 'DMSO'])),
        ('ternary/triethylamine', ['NaCl', 'water', 'Na2SO4'], 'NaCl', 'triethylamine'),
    ]
    for vname, comps, solute, solvent in (variants if tier == 'thorough' else variants[:8]):
        for cu in (concs if tier == 'thorough' else concs[:4]):
            for qu in qunits:
                if tier == 'quick' and (concs.index(cu) + qunits.index(qu) + len(vname)) % 2 and vname not in ('binary/water',):
                    continue
                if tier == 'quick' and vname == 'binary/water' and qu == 'mmol' and cu in ('g/L', 'mg/g'):
                    continue        # two cells that take z3 ~5 min each (same combination is quick for the other variants)
                out.append({'id': f"{vname}/{cu.replace('/', '_')}/{qu}", 'fn': 'h_from', 'round': 'lite', 'max_paths': 400,
                            'cost': 3, 'params': {'comps': comps, 'solute': solute, 'solvent': solvent, 'cu': cu, 'qu': qu}})
        if solute == 'DMSO':
            out.append({'id': f"{vname}/L_L/mL", 'fn': 'h_from', 'round': 'lite', 'max_paths': 400, 'cost': 3,
                        'params': {'comps': comps, 'solute': solute, 'solvent': solvent, 'cu': 'L/L', 'qu': 'mL'}})
    # volume-fraction target with a solvent container of concrete composition (its bulk density is then a constant, which
    # keeps the queries small also when the code under test mixes up densities)
    out.append({'id': "liquid-solute/container+solute/L_L/mL/pinned-solvent", 'fn': 'h_from', 'round': 'lite', 'max_paths': 400,
                'cost': 3, 'params': {'comps': ['DMSO', 'water'], 'solute': 'DMSO', 'solvent': ('container', ['water', 'DMSO']),
                                      'cu': 'L/L', 'qu': 'mL', 'pin': {'solv.water': '40000', 'solv.DMSO': '3000'}}})
    for (vname, comps, solute, solvent) in [variants[0], variants[3]]:
        for cu, qu in [('M', 'mL'), ('mg/g', 'g')]:
            out.append({'id': f"finite-stock-vessel/{vname}/{cu.replace('/', '_')}/{qu}", 'fn': 'h_from', 'round': 'lite',
                        'max_paths': 400, 'cost': 6, 'params': {'comps': comps, 'solute': solute, 'solvent': solvent,
                                                                'cu': cu, 'qu': qu, 'with_cap': True}})
    # history: the same request was made before on a stock that compares equal (same name, same amounts) but holds another
    # lot of the enzyme (same name, four times the specific activity)
    for cu, qu in [('M', 'g'), ('mg/g', 'g'), ('M', 'mL')]:
        out.append({'id': f"history/relotted-stock/{cu.replace('/', '_')}/{qu}", 'fn': 'h_from', 'round': 'lite',
                    'max_paths': 400, 'cost': 6, 'params': {'comps': ['NaCl', 'water', 'lipase'], 'solute': 'NaCl',
                                                            'solvent': 'water', 'cu': cu, 'qu': qu, 'relot': True}})
    # asking for exactly the concentration the stock already has: an aliquot of the stock and no solvent (in the real-number
    # model the solvent amount is the zero polynomial; in floats it is rounding noise of either sign)
    for k, (lo, hi) in enumerate([(1000, 2000), (3000, 7000), (10**4, 3 * 10**4), (5 * 10**4, 10**5), (2 * 10**5, 10**6),
                                  (1234, 5678), (40000, 90000), (7 * 10**5, 10**6)]):
        out.append({'id': f"own-concentration/{k}", 'fn': 'h_own', 'round': 'lite', 'max_paths': 50,
                    'params': {'lo': lo, 'hi': hi, 'solvent': 'water' if k % 2 == 0 else 'DMSO'}})
    out.append({'id': "guards", 'fn': 'h_guards', 'round': 'lite', 'max_paths': 50, 'params': {}})
    return out


def h_from(h):
    p = h.p
    C = h.env.Container
    container_solvent = not isinstance(p['solvent'], str)
    solv_names = p['solvent'][1] if container_solvent else [p['solvent']]
    lib = Lib(h, set(p['comps']) | set(solv_names))
    solute = lib[p['solute']]
    # the stock sits in a vessel of finite capacity (which says nothing about the vessel of the new solution)
    if p.get('with_cap'):
        cap = h.real('stock.cap', 1, 10**9)
        stock = mk_container(h, lib, 'stock', p['comps'], cap=cap, lo=10**3, hi=10**6)
        h.assume(h.le(lib.volume_storage(stock.contents), cap))
    else:
        stock = mk_container(h, lib, 'stock', p['comps'], lo=10**3, hi=10**6)
    A = dict(stock.contents)
    if container_solvent:
        solv = mk_container(h, lib, 'solv', solv_names, lo=10**3, hi=10**6)
        B = dict(solv.contents)
        solvent_arg = solv
    else:
        solvent_arg = lib[p['solvent']]
        B = {solvent_arg: 1}
    ct = h.real('ct', Fr(1, 10**6), 10**3)
    Q = h.real('Q', Fr(1, 10**6), 10**5)
    nb, db, scale = conc_def(h, p['cu'])
    pf, qb = split_unit(p['qu'])
    # unknowns: fx = fraction of the stock taken, sy = stored amount of pure solvent / fraction of the solvent container
    row_c = [scale * lib.amount(solute, A.get(solute, 0), nb) - ct * lib.total(A, db),
             scale * lib.amount(solute, B.get(solute, 0), nb) - ct * lib.total(B, db)]
    row_q = [lib.total(A, qb), lib.total(B, qb)]
    M = [row_c, row_q]
    rhs = [0, Q * PREFIX[pf]]
    det = _det(M)
    dx = _det([[rhs[0], M[0][1]], [rhs[1], M[1][1]]])
    dy = _det([[M[0][0], rhs[0]], [M[1][0], rhs[1]]])
    conds_ok = [h.ne(det, 0), h.ge(dx * det, 0), h.ge(dy * det, 0), h.le((dx - det) * det, 0)]
    conds_bad = [h.eq(det, 0), h.le(dx * det, 0), h.le(dy * det, 0), h.ge((dx - det) * det, 0)]
    if container_solvent:
        conds_ok.append(h.le((dy - det) * det, 0))
        conds_bad.append(h.ge((dy - det) * det, 0))
    if p.get('relot'):
        from copy import deepcopy
        twin = deepcopy(stock)
        for s_ in list(twin.contents):
            if s_.is_enzyme():
                other = h.env.Substance.enzyme(s_.name, '1 U/g')
                other.specific_activity = s_.specific_activity * 4
                twin.contents = {(other if k is s_ else k): v for k, v in twin.contents.items()}
        try:
            C.create_solution_from(twin, solute, f"{ct} {p['cu']}", solvent_arg, f"{Q} {p['qu']}", name='new')
        except ValueError:
            pass
    try:
        res = C.create_solution_from(stock, solute, f"{ct} {p['cu']}", solvent_arg, f"{Q} {p['qu']}", name='new')
    except ValueError:
        h.outcome = 'refused'
        h.require('refusal-justified', h.any_of(conds_bad), companion=False,
                  detail="the stock can deliver the requested solution (0 <= share of stock <= 1, solvent >= 0), yet it was refused")
        return
    h.outcome = 'ok'
    # (determinant products are numerically fragile in floats exactly on the boundary witnesses z3 prefers: in the native
    #  companion run these two obligations only confirm symbolic counterexamples)
    h.require('acceptance-justified', h.all_of(conds_ok), companion=False)
    if container_solvent:
        rest, rest_solv, new = res
    else:
        rest, new = res
        rest_solv = None
    ulp = h.ulp
    # ---- requested total and concentration (natively the library rounds the parsed concentration to 1e-10 in base units:
    #      an absolute error of ulp*scale in `cu`, hence ulp*scale*den in the cross-multiplied form)
    tot = lib.total(new.contents, qb)
    h.require('total==requested', h.eq(tot, Q * PREFIX[pf], h.rs(Fr(1, 10**6) * (1 + tot))), region=p['qu'],
              detail=f"total quantity of the new solution in {p['qu']}")
    num = lib.amount(solute, new.contents.get(solute, 0), nb)
    den = lib.total(new.contents, db)
    h.require('concentration==requested', h.eq(num * scale, ct * den, h.rs(Fr(1, 10**6) * (scale * num + ct * den) + 8 * ulp * scale * (1 + den))),
              region=p['cu'], detail=f"concentration of {p['solute']} in {p['cu']}")
    # ---- composition: aliquot of stock (+ aliquot of solvent container) + pure solvent only
    allowed = set(A) | set(B)
    h.require('keys', h.true(set(new.contents) <= allowed), detail="a foreign substance appeared in the new solution")
    comps = list(A)
    taken = {s: A[s] - rest.contents.get(s, 0) for s in comps}
    for i in range(len(comps)):
        for j in range(i + 1, len(comps)):
            si, sj = comps[i], comps[j]
            h.require('stock-aliquot-uniform', h.eq(taken[si] * A[sj], taken[sj] * A[si], h.rs(2 * ulp * (A[si] + A[sj]))),
                      detail=f"{si.name} and {sj.name} leave the stock in proportion")
    h.require('stock-keys', h.true(set(rest.contents) == set(A)))
    # ---- conservation: residuals + new = inputs + added pure solvent
    for s in allowed:
        before = A.get(s, 0) + (B.get(s, 0) if container_solvent else 0)
        after = rest.contents.get(s, 0) + new.contents.get(s, 0) + (rest_solv.contents.get(s, 0) if container_solvent else 0)
        if not container_solvent and s == solvent_arg:
            h.require('only-solvent-added', h.ge(after, before, h.rs(4 * ulp)))
        else:
            h.require('conserved', h.eq(after, before, h.rs(6 * ulp)), detail=f"{s.name}: residuals + new solution = inputs")
    if container_solvent:
        compsB = list(B)
        takenB = {s: B[s] - rest_solv.contents.get(s, 0) for s in compsB}
        for i in range(len(compsB)):
            for j in range(i + 1, len(compsB)):
                si, sj = compsB[i], compsB[j]
                h.require('solvent-aliquot-uniform', h.eq(takenB[si] * B[sj], takenB[sj] * B[si], h.rs(2 * ulp * (B[si] + B[sj]))))


def h_own(h):
    p = h.p
    C = h.env.Container
    lib = Lib(h, ['NaCl', 'water', 'DMSO'])
    salt, solvent = lib['NaCl'], lib[p['solvent']]
    stock = mk_container(h, lib, 'stock', ['NaCl', 'water'], lo=p['lo'], hi=p['hi'])
    A = dict(stock.contents)
    ct = lib.amount(salt, A[salt], 'mol') / lib.total(A, 'L')            # the stock's own molarity
    vol_mL = lib.total(A, 'L') * 1000
    f = h.real('f', Fr(1, 100), Fr(9, 10))                                # share of the stock asked for
    Q = vol_mL * f
    h.outcome = 'ok'
    try:
        rest, new = C.create_solution_from(stock, salt, f"{ct} M", solvent, f"{Q} mL", name='new')
    except ValueError as e:
        h.fail('own-concentration-accepted', f"a solution at the stock's own concentration ({ct} M, {Q} mL of it) was refused: {e}")
        return
    h.require('own-concentration-accepted', h.true(True))
    tot = lib.total(new.contents, 'L') * 1000
    h.require('total==requested', h.eq(tot, Q, h.rs(Fr(1, 10**6) * (1 + tot))), region='mL')
    num = lib.amount(salt, new.contents.get(salt, 0), 'mol')
    den = lib.total(new.contents, 'L')
    h.require('concentration==requested', h.eq(num, ct * den, h.rs(Fr(1, 10**6) * (num + ct * den))), region='M')
    for s_ in A:
        h.require('conserved', h.eq(rest.contents.get(s_, 0) + new.contents.get(s_, 0), A[s_], h.rs(6 * h.ulp)),
                  detail=f"{s_.name}: residual + new solution = stock")


def h_guards(h):
    """argument guards: non-positive quantity, solute absent from the stock, solvent == solute -> ValueError"""
    C = h.env.Container
    lib = Lib(h, ['NaCl', 'water', 'Na2SO4'])
    salt, water, other = lib['NaCl'], lib['water'], lib['Na2SO4']
    stock = mk_container(h, lib, 'stock', ['NaCl', 'water'], lo=1)
    Q = h.real('Q', -10, 0)
    for label, args in [('non-positive-quantity', (stock, salt, '0.1 M', water, f"{Q} mL")),
                        ('solute-not-in-stock', (stock, other, '0.1 M', water, '1 mL')),
                        ('solvent-is-solute', (stock, salt, '0.1 M', salt, '1 mL'))]:
        try:
            C.create_solution_from(*args)
            h.fail(f'guard:{label}', "accepted")
        except ValueError:
            h.require(f'guard:{label}', h.true(True))
        except Exception as e:  # noqa: BLE001
            h.fail(f'guard:{label}', f"raised {type(e).__name__}: {e}")
    h.outcome = 'ok'
