"""C09 — get_substance_used reports the net gain of the destinations over the timeframe (+ discarded)."""
from __future__ import annotations

import itertools
import random
from copy import deepcopy
from fractions import Fraction as Fr

from ..ref import PREFIX, split_unit
from . import recipes as R
from .recipes import Cast, TEMPLATES, add_step, eager_step, containers_of

PROPERTY = 'C09'
BOUNDS = ("Baked recipe programs of 1-2 steps (quick: all 1-step programs and every 2-step program whose steps share an object; thorough: all "
          "2-step and 24 seeded 3-step programs) over the 22 step templates of C08 with symbolic quantities; stage "
          "partition: stage s1 = the first k steps, s2 = the rest, for every split point k; queries for water and NaCl "
          "(thorough: + DMSO, never used) in umol, mg (thorough: + uL), timeframes all / s1 / s2 (every split point for programs whose steps share an object), destination "
          "sets: default ('plates'), every single used object, the set of all used objects, and one pair. Oracle: "
          "ledger of every object's contents at each step boundary from the eager interpreter of C08, plus the "
          "amounts discarded by remove steps. Output rounding modelled: |reported - ledger| <= 0.5*10^-digits. "
          "Lite rounding model. Also: a partial remove from a recipe-created container right after its creation; a second recipe "
          "on the objects a first, already queried, recipe returned.")
OUTSIDE = ("IEEE rounding; recipes whose bake is refused (C08 shows bake refuses iff the eager fold does); enzymes in the "
           "cast; programs longer than 3.")
ASSUMPTIONS = ["Recipe._rounding_noise (the library's own bound on float rounding noise, the tolerance of get_substance_used's net-decrease test) is 0 in the real-number model, where roundings at internal precision are the identity; native companion runs use the real one",
               "instruction-text helpers are replaced by non-forking summaries (subject of C19)",
               "numpy.linalg.solve replaced by its exact contract"]
EXPECT_OUTCOMES = ['ok']


def cells(tier, seed):
    out = []
    rng = random.Random(seed or 1)
    p1 = [p for p in R.programs(1)]
    p2 = [p for p in R.programs(2) if len(p) == 2]
    if tier == 'quick':
        p2 = [p for p in p2 if R.interacting(p)]       # steps sharing an object; independent pairs: thorough tier
        progs = p1 + p2
        units = ['umol', 'mg']
        subs = ['water', 'NaCl']
    else:
        p3 = [p for p in R.programs(3) if len(p) == 3]
        rng.shuffle(p3)
        progs = p1 + p2 + p3[:24]
        units = ['umol', 'mg', 'uL']
        subs = ['water', 'NaCl', 'DMSO']
    for prog in progs:
        for k in range(0, len(prog) + 1):
            if tier == 'quick' and len(prog) == 2 and k != 1:
                continue
            if tier == 'quick' and len(prog) == 1 and k != 1:
                continue
            if tier == 'thorough' and len(prog) == 3 and k not in (1, 2):
                continue
            if tier == 'thorough' and len(prog) == 2 and k != 1 and not R.interacting(prog):
                continue        # steps that share no object: the stage split between them is enough
            if tier == 'quick':
                combos = [[('water', 'umol'), ('NaCl', 'mg')]]       # one exploration of the program serves both queries
            else:
                # (DMSO never occurs in these programs: asked about for the 1-step programs only)
                combos = [[(sub, unit) for unit in units] for sub in (subs if len(prog) == 1 else subs[:2])] if len(prog) < 3 else \
                    [[('water', 'umol'), ('NaCl', 'mg'), ('water', 'uL')]]
            for ci, combo in enumerate(combos):
                out.append({'id': f"prog/{','.join(prog)}/k{k}/q{ci}", 'fn': 'h_used', 'round': 'lite',
                            'max_paths': 400, 'cost': 2 ** len(prog), 'gens': 160,
                            'params': {'prog': list(prog), 'split': k, 'queries': [list(x) for x in combo]}})
    # dilution of a stock with a solvent it does not contain, queried for that solvent
    for prog in (['fromAd'], ['fromAd', 'A>B'], ['A>B', 'fromAd'], ['fromAd', 'dilA']):
        for k in ((1,) if tier == 'quick' else range(0, len(prog) + 1)):
            out.append({'id': f"prog/{','.join(prog)}/k{k}/qd", 'fn': 'h_used', 'round': 'lite', 'max_paths': 400,
                        'cost': 2 ** len(prog), 'gens': 160,
                        'params': {'prog': prog, 'split': k, 'queries': [['DMSO', 'umol'], ['water', 'mg'], ['NaCl', 'umol']]}})
    # a partial remove from a container the recipe created, right after its creation (the solutes stay behind)
    for prog in (['solW', 'rmSw'], ['sol2', 'rmSw'], ['solA', 'rmSw']):
        for k in ((1,) if tier == 'quick' else range(0, len(prog) + 1)):
            out.append({'id': f"prog/{','.join(prog)}/k{k}/qs", 'fn': 'h_used', 'round': 'lite', 'max_paths': 400,
                        'cost': 4, 'gens': 160,
                        'params': {'prog': prog, 'split': k, 'queries': [['NaCl', 'umol'], ['water', 'mg']] +
                                   ([['DMSO', 'umol']] if 'sol2' in prog else [])}})
    # history across recipes: the objects a first recipe returned (and was queried about) go into a second recipe
    for unit in (['uL'] if tier == 'quick' else ['uL', 'mg', 'umol']):
        out.append({'id': f"two-recipes/{unit}", 'fn': 'h_two_recipes', 'round': 'lite', 'max_paths': 100, 'cost': 4,
                    'gens': 160, 'params': {'unit': unit}})
    # pinned witnesses: amounts whose floating-point sums over the wells do not cancel exactly (source and destination both
    # among the destinations: net change 0, which the library used to report as a net decrease)
    for pi, pin in enumerate(PINS):
        for prog in (['A>Pr'], ['A>Psub'], ['A>Pr', 'Pc>B']):
            out.append({'id': f"pinned/{','.join(prog)}/w{pi}", 'fn': 'h_used', 'round': 'lite', 'max_paths': 50, 'cost': 1,
                        'gens': 160, 'params': {'prog': prog, 'split': 1, 'pin': pin,
                                                'queries': [['water', 'umol'], ['NaCl', 'mg']]}})
    return out


PINS = [
    {'A.water': '790836.118', 'A.NaCl': '947.657', 'P11.water': '380.6', 'P12.water': '8374.1', 'P21.water': '4384.4',
     'P22.water': '7646.6', 'q0': '0.221', 'q1': '0.05'},
    {'A.water': '44180.572', 'A.NaCl': '2434.972', 'P11.water': '7994.3', 'P12.water': '4201.7', 'P21.water': '1812.8',
     'P22.water': '5533.1', 'q0': '70.307', 'q1': '7.7'},
    {'A.water': '677740.972', 'A.NaCl': '3753.283', 'P11.water': '4445.7', 'P12.water': '5133.4', 'P21.water': '7806.6',
     'P22.water': '5257.3', 'q0': '39.332', 'q1': '1.1'},
    {'A.water': '178645.705', 'A.NaCl': '5027.363', 'P11.water': '9822.6', 'P12.water': '7728.2', 'P21.water': '5442.2',
     'P22.water': '8616.9', 'q0': '23.225', 'q1': '4.85'},
]


def run_recipe(h, prog, split):
    """declare, add steps (stage s1 = steps[:split], s2 = steps[split:]), bake; eager ledger.
    Returns None if bake refuses, else (rec, cast, placeholders, states, discards) where states[i] is the
    name->object map after i steps and discards[i] the substance->amount discarded by step i."""
    cast = Cast(h)
    Recipe = h.env.Recipe
    values = [cast.step_values(i, t) for i, t in enumerate(prog)]
    decl = R.declared_for(prog)
    rec = Recipe().uses(*[cast.declared[k] for k in decl])
    placeholders = {}
    rec.start_stage('s1')
    for i, (t, v) in enumerate(zip(prog, values)):
        if i == split:
            rec.end_stage('s1')
            rec.start_stage('s2')
        add_step(cast, rec, t, v, placeholders)
    if split >= len(prog):
        rec.end_stage('s1')
        rec.start_stage('s2')
    rec.end_stage('s2')
    try:
        rec.bake()
    except ValueError:
        return None
    # ledger
    cur = {k: cast.declared[k] for k in decl}
    for name, ph in placeholders.items():
        cur[name] = ph            # recipe-created containers exist, empty, from their declaration
    states = [dict(cur)]
    discards = []
    try:
        for t, v in zip(prog, values):
            _, disc = eager_step(cast, cur, t, v)
            states.append(dict(cur))
            discards.append(disc)
    except ValueError:
        return None      # bake accepted what the eager fold refuses: a C08 violation, no ledger to compare with here
    objects = dict(cast.declared)
    objects.update(placeholders)
    return rec, cast, objects, states, discards


def h_two_recipes(h):
    """recipe 1: A -> row 1 of P, baked and queried; recipe 2 on the objects recipe 1 returned: A -> row 1 of P again and
    column 1 of P -> B.  Every query of recipe 2 is about recipe 2's own steps."""
    cast = Cast(h)
    lib = cast.lib
    Recipe = h.env.Recipe
    C, Plate = h.env.Container, h.env.Plate
    unit = h.p['unit']
    prefix, base = split_unit(unit)
    prec = h.env.config.precisions.get(unit, h.env.config.precisions['default'])
    half = Fr(1, 2 * 10**prec)
    q0, q1, q2 = h.real('q0', Fr(1, 10), 100), h.real('q1', Fr(1, 10), 100), h.real('q2', Fr(1, 10), 50)
    A, B, P = cast.A, cast.B, cast.P
    r1 = Recipe().uses(A, P)
    r1.transfer(A, P[1, :], f"{q0} uL")
    try:
        res1 = r1.bake()
        A1e, P1e = Plate.transfer(A, P[1, :], f"{q0} uL")
    except ValueError:
        h.outcome = 'bake-refused'      # (bake refuses iff the eager fold does: C08)
        return
    h.outcome = 'ok'

    def check(rec, region, s, dests, names, before, after):
        ledger = 0
        for n in names:
            ledger = ledger + amount_in(after[n], s) - amount_in(before[n], s)
        truth = lib.amount(s, ledger, base) / PREFIX[prefix]
        try:
            got = rec.get_substance_used(s, unit=unit, destinations=dests)
        except ValueError as e:
            h.require('raises-only-on-net-decrease', h.lt(ledger, 0, h.rs(h.ulp * 100)), region, detail=str(e))
            return
        h.require('no-answer-on-net-decrease', h.ge(ledger, 0, h.rs(h.ulp * 100)), region)
        h.require('reported==ledger', h.eq(got, truth, half + h.rs(h.ulp * 10**4)), region,
                  detail=f"{s.name} in {unit}, destinations {names}")

    for sname in ('water', 'NaCl'):
        check(r1, f"recipe1/{sname}/P", lib[sname], [P], ['P'], {'P': P}, {'P': P1e})
        check(r1, f"recipe1/{sname}/default", lib[sname], 'plates', ['P'], {'P': P}, {'P': P1e})
    A1, P1 = res1[A.name], res1['P']
    r2 = Recipe().uses(A1, P1, B)
    r2.transfer(A1, P1[1, :], f"{q1} uL")
    r2.transfer(P1[:, 1], B, f"{q2} uL")
    try:
        r2.bake()
        A2e, P2e = Plate.transfer(A1e, P1e[1, :], f"{q1} uL")
        P3e, B3e = C.transfer(P2e[:, 1], B, f"{q2} uL")
    except ValueError:
        h.outcome = 'bake-refused'
        return
    before = {'A': A1e, 'P': P1e, 'B': B}
    after = {'A': A2e, 'P': P3e, 'B': B3e}
    for sname in ('water', 'NaCl'):
        s = lib[sname]
        check(r2, f"recipe2/{sname}/P", s, [P1], ['P'], before, after)
        check(r2, f"recipe2/{sname}/default", s, 'plates', ['P'], before, after)
        check(r2, f"recipe2/{sname}/B", s, [B], ['B'], before, after)
        check(r2, f"recipe2/{sname}/P+B", s, [P1, B], ['P', 'B'], before, after)


def amount_in(obj, s):
    t = 0
    for c in containers_of(obj):
        t = t + c.contents.get(s, 0)
    return t


def h_used(h):
    p = h.p
    prog, split = p['prog'], p['split']
    out = run_recipe(h, prog, split)
    if out is None:
        h.outcome = 'bake-refused'
        return
    rec, cast, objects, states, discards = out
    h.outcome = 'ok'
    for sub_name, unit in p['queries']:
        _queries(h, p, prog, split, rec, cast, objects, states, discards, sub_name, unit)


def _queries(h, p, prog, split, rec, cast, objects, states, discards, sub_name, unit):
    lib = cast.lib
    s = lib[sub_name]
    prefix, base = split_unit(unit)
    prec = h.env.config.precisions.get(unit, h.env.config.precisions['default'])
    half = Fr(1, 2 * 10**prec)
    used_names = sorted(states[0])
    frames = {'all': (0, len(prog)), 's1': (0, min(split, len(prog))), 's2': (min(split, len(prog)), len(prog))}
    dest_sets = [('default', 'plates')]
    for n in used_names:
        dest_sets.append((n, [n]))
    if len(used_names) > 1:
        dest_sets.append(('+'.join(used_names), used_names))
    if len(used_names) > 2:
        dest_sets.append(('+'.join(used_names[:2]), used_names[:2]))
    reported = {}
    for fname, (a, b) in frames.items():
        for dlabel, dests in dest_sets:
            if dests == 'plates':
                names = [n for n in used_names if hasattr(objects[n], 'wells')]
                arg = 'plates'
            else:
                names = dests
                arg = [objects[n] for n in dests]
            ledger = 0
            for n in names:
                ledger = ledger + amount_in(states[b][n], s) - amount_in(states[a][n], s)
            for i in range(a, b):
                ledger = ledger + discards[i].get(s, 0)
            truth = lib.amount(s, ledger, base) / PREFIX[prefix]
            region = f"{sub_name}/{fname}/{dlabel}"
            # (a remove from the plate after a slice fill_to discards what bake wrongly added to the wells outside the slice:
            #  the known finding C09-bake-fill-slice then shows whatever the destinations are)
            if any(prog[j] in ('rmP', 'rmPr') and 'fillS' in prog[:j] for j in range(a, b)):
                region += '/rm-after-slice-fill'
            try:
                got = rec.get_substance_used(s, timeframe=fname, unit=unit, destinations=arg)
            except ValueError as e:
                # a net decrease must raise; anything else must not.  When every object the steps of the timeframe touch is
                # a destination, nothing can leave the destinations: raising is wrong whatever the amounts (symbolically
                # this is implied by the next obligation; natively it is not, because that one tolerates rounding noise)
                touched = set()
                for t in prog[a:b]:
                    touched |= R._objects(t)
                if touched <= set(names):
                    h.fail('closed-system-never-raises', f"raised '{e}' although every object the steps touch is a destination",
                           region)
                    continue
                h.require('raises-only-on-net-decrease', h.lt(ledger, 0, h.rs(h.ulp * 100)), region,
                          detail=f"raised '{e}' although the ledger shows no net decrease")
                continue
            h.require('no-answer-on-net-decrease', h.ge(ledger, 0, h.rs(h.ulp * 100)), region,
                      detail="a net decrease of the destinations must raise ValueError")
            h.require('reported==ledger', h.eq(got, truth, half + h.rs(h.ulp * 10**4)), region,
                      detail=f"{sub_name} in {unit}, timeframe {fname}, destinations {dlabel}")
            reported[(fname, dlabel)] = got
    # additivity over the two consecutive stages
    for dlabel, _ in dest_sets:
        if all((f, dlabel) in reported for f in ('all', 's1', 's2')):
            h.require('stages-add-up', h.eq(reported[('s1', dlabel)] + reported[('s2', dlabel)], reported[('all', dlabel)],
                                            3 * half + h.rs(h.ulp * 10**4)), f"{sub_name}/{dlabel}",
                      detail="amount over s1 + amount over s2 = amount over the whole recipe")
