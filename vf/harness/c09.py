"""C09 — get_substance_used reports the net gain of the destinations over the timeframe (+ discarded)."""
from __future__ import annotations

import itertools
import random
from copy import deepcopy
from fractions import Fraction as Fr

from ..ref import PREFIX, split_unit
from . import recipes as R
from .recipes import Cast, TEMPLATES, add_step, eager_step, containers_of

PROPERTY = 'C09'
BOUNDS = ("Baked recipe programs of 1-2 steps (quick: all 1-step programs and every 2-step program whose steps share an object; thorough: all "
          "2-step and 120 seeded 3-step programs) over the 22 step templates of C08 with symbolic quantities; stage "
          "partition: stage s1 = the first k steps, s2 = the rest, for every split point k; queries for water and NaCl "
          "(thorough: + DMSO, never used) in umol, mg (thorough: + mmol, uL, g), timeframes all / s1 / s2, destination "
          "sets: default ('plates'), every single used object, the set of all used objects, and one pair. Oracle: "
          "ledger of every object's contents at each step boundary from the eager interpreter of C08, plus the "
          "amounts discarded by remove steps. Output rounding modelled: |reported - ledger| <= 0.5*10^-digits. "
          "Lite rounding model.")
OUTSIDE = ("IEEE rounding; recipes whose bake is refused (C08 shows bake refuses iff the eager fold does); enzymes in the "
           "cast; programs longer than 3.")
ASSUMPTIONS = ["instruction-text helpers are replaced by non-forking summaries (subject of C19)",
               "numpy.linalg.solve replaced by its exact contract"]
EXPECT_OUTCOMES = ['ok']


def cells(tier, seed):
    out = []
    rng = random.Random(seed or 1)
    p1 = [p for p in R.programs(1)]
    p2 = [p for p in R.programs(2) if len(p) == 2]
    if tier == 'quick':
        p2 = [p for p in p2 if R.interacting(p)]       # steps sharing an object; independent pairs: thorough tier
        progs = p1 + p2
        units = ['umol', 'mg']
        subs = ['water', 'NaCl']
    else:
        p3 = [p for p in R.programs(3) if len(p) == 3]
        rng.shuffle(p3)
        progs = p1 + p2 + p3[:120]
        units = ['umol', 'mmol', 'mg', 'g', 'uL']
        subs = ['water', 'NaCl', 'DMSO']
    for prog in progs:
        for k in range(0, len(prog) + 1):
            if tier == 'quick' and len(prog) == 2 and k != 1:
                continue
            if tier == 'quick' and len(prog) == 1 and k != 1:
                continue
            if tier == 'thorough' and len(prog) == 3 and k not in (1, 2):
                continue
            if tier == 'quick':
                combos = [[('water', 'umol'), ('NaCl', 'mg')]]       # one exploration of the program serves both queries
            else:
                combos = [[(sub, unit) for unit in units] for sub in subs] if len(prog) < 3 else \
                    [[('water', 'umol'), ('NaCl', 'mg'), ('water', 'uL')]]
            for ci, combo in enumerate(combos):
                out.append({'id': f"prog/{','.join(prog)}/k{k}/q{ci}", 'fn': 'h_used', 'round': 'lite',
                            'max_paths': 400, 'cost': 2 ** len(prog), 'gens': 160,
                            'params': {'prog': list(prog), 'split': k, 'queries': [list(x) for x in combo]}})
    return out


def run_recipe(h, prog, split):
    """declare, add steps (stage s1 = steps[:split], s2 = steps[split:]), bake; eager ledger.
    Returns None if bake refuses, else (rec, cast, placeholders, states, discards) where states[i] is the
    name->object map after i steps and discards[i] the substance->amount discarded by step i."""
    cast = Cast(h)
    Recipe = h.env.Recipe
    values = [cast.step_values(i, t) for i, t in enumerate(prog)]
    decl = R.declared_for(prog)
    rec = Recipe().uses(*[cast.declared[k] for k in decl])
    placeholders = {}
    rec.start_stage('s1')
    for i, (t, v) in enumerate(zip(prog, values)):
        if i == split:
            rec.end_stage('s1')
            rec.start_stage('s2')
        add_step(cast, rec, t, v, placeholders)
    if split >= len(prog):
        rec.end_stage('s1')
        rec.start_stage('s2')
    rec.end_stage('s2')
    try:
        rec.bake()
    except ValueError:
        return None
    # ledger
    cur = {k: cast.declared[k] for k in decl}
    for name, ph in placeholders.items():
        cur[name] = ph            # recipe-created containers exist, empty, from their declaration
    states = [dict(cur)]
    discards = []
    try:
        for t, v in zip(prog, values):
            _, disc = eager_step(cast, cur, t, v)
            states.append(dict(cur))
            discards.append(disc)
    except ValueError:
        return None      # bake accepted what the eager fold refuses: a C08 violation, no ledger to compare with here
    objects = dict(cast.declared)
    objects.update(placeholders)
    return rec, cast, objects, states, discards


def amount_in(obj, s):
    t = 0
    for c in containers_of(obj):
        t = t + c.contents.get(s, 0)
    return t


def h_used(h):
    p = h.p
    prog, split = p['prog'], p['split']
    out = run_recipe(h, prog, split)
    if out is None:
        h.outcome = 'bake-refused'
        return
    rec, cast, objects, states, discards = out
    h.outcome = 'ok'
    for sub_name, unit in p['queries']:
        _queries(h, p, prog, split, rec, cast, objects, states, discards, sub_name, unit)


def _queries(h, p, prog, split, rec, cast, objects, states, discards, sub_name, unit):
    lib = cast.lib
    s = lib[sub_name]
    prefix, base = split_unit(unit)
    prec = h.env.config.precisions.get(unit, h.env.config.precisions['default'])
    half = Fr(1, 2 * 10**prec)
    used_names = sorted(states[0])
    frames = {'all': (0, len(prog)), 's1': (0, min(split, len(prog))), 's2': (min(split, len(prog)), len(prog))}
    dest_sets = [('default', 'plates')]
    for n in used_names:
        dest_sets.append((n, [n]))
    if len(used_names) > 1:
        dest_sets.append(('+'.join(used_names), used_names))
    if len(used_names) > 2:
        dest_sets.append(('+'.join(used_names[:2]), used_names[:2]))
    reported = {}
    for fname, (a, b) in frames.items():
        for dlabel, dests in dest_sets:
            if dests == 'plates':
                names = [n for n in used_names if hasattr(objects[n], 'wells')]
                arg = 'plates'
            else:
                names = dests
                arg = [objects[n] for n in dests]
            ledger = 0
            for n in names:
                ledger = ledger + amount_in(states[b][n], s) - amount_in(states[a][n], s)
            for i in range(a, b):
                ledger = ledger + discards[i].get(s, 0)
            truth = lib.amount(s, ledger, base) / PREFIX[prefix]
            region = f"{sub_name}/{fname}/{dlabel}"
            try:
                got = rec.get_substance_used(s, timeframe=fname, unit=unit, destinations=arg)
            except ValueError as e:
                # a net decrease must raise; anything else must not
                h.require('raises-only-on-net-decrease', h.lt(ledger, 0, h.rs(h.ulp * 100)), region,
                          detail=f"raised '{e}' although the ledger shows no net decrease")
                continue
            h.require('no-answer-on-net-decrease', h.ge(ledger, 0, h.rs(h.ulp * 100)), region,
                      detail="a net decrease of the destinations must raise ValueError")
            h.require('reported==ledger', h.eq(got, truth, half + h.rs(h.ulp * 10**4)), region,
                      detail=f"{sub_name} in {unit}, timeframe {fname}, destinations {dlabel}")
            reported[(fname, dlabel)] = got
    # additivity over the two consecutive stages
    for dlabel, _ in dest_sets:
        if all((f, dlabel) in reported for f in ('all', 's1', 's2')):
            h.require('stages-add-up', h.eq(reported[('s1', dlabel)] + reported[('s2', dlabel)], reported[('all', dlabel)],
                                            3 * half + h.rs(h.ulp * 10**4)), f"{sub_name}/{dlabel}",
                      detail="amount over s1 + amount over s2 = amount over the whole recipe")
