"""C14 — quantity and concentration strings mean what SI says.
Values: symx (symbolic numbers inside the strings).  Grammar / rejection: CrossHair (the string itself symbolic)."""
from __future__ import annotations

import json
import os
from fractions import Fraction as Fr

from .. import xhdriver
from ..driver import load_known, run_symx, save_evidence, do_replay
from ..ref import Lib, PREFIX, split_unit
from .c05 import conc_def

PROPERTY = 'C14'
TEMPLATE = os.path.join(os.path.dirname(os.path.dirname(os.path.abspath(__file__))), 'xh', 'c14_conditions.py')
BOUNDS = ("symx part: Unit.parse_quantity for all 10 prefixes x {mol, g, L, M, U} and Unit.parse_concentration for M, m, the "
          "percent forms and every numerator {mol,g,L,U} x denominator {mol,g,L,U} pair x 10x10 prefixes, with and without "
          "a denominator value, the value(s) symbolic in [-1e6, 1e6] / [1e-6, 1e6]; 6 classes of equivalent spellings parse "
          "equal; Container construction, transfer, create_solution, create_solution_from (molar, molal, w/w, v/v and g/L "
          "classes, liquid solute), dilute and get_concentration give identical results for equivalent spellings (symbolic "
          "amounts), and the solution made has the concentration the string denotes. CrossHair part: the whole string symbolic (all of unicode, length "
          "<= 6), the unit token symbolic (length <= 5) after a fixed value, the value token symbolic (<= 6), numerator / "
          "denominator unit tokens (<= 3 each), and arbitrary tails (<= 4) appended to valid strings.")
OUTSIDE = ("IEEE rounding; strings longer than the stated lengths; CrossHair verdicts other than 'Confirmed over all paths' "
           "are bug-hunting only; the lenient reading of numbers by Python's float() (nan, 1_0, full-width digits) is "
           "accepted as a number.")
ASSUMPTIONS = ["CrossHair plugin vf/xh/plugin.py routes the unbound str.split(x) used by parse_concentration to x.split "
               "(CrossHair's symbolic strings are not str instances)"]
EXPECT_OUTCOMES = ['ok']

ALL_PREFIXES = ['n', 'u', 'µ', 'm', 'c', 'd', '', 'da', 'k', 'M']


def cells(tier, seed):
    out = []
    for base in ['mol', 'g', 'L', 'M', 'U']:
        out.append({'id': f"quantity/{base}", 'fn': 'h_quantity', 'round': 'lite', 'max_paths': 20, 'params': {'base': base}})
    for n in ['mol', 'g', 'L', 'U']:
        for d in ['mol', 'g', 'L', 'U']:
            out.append({'id': f"concentration/{n}_{d}", 'fn': 'h_concentration', 'round': 'lite', 'max_paths': 50,
                        'params': {'n': n, 'd': d}})
    # small values written with small prefixes keep their meaning to six significant digits (delta rounding model)
    for group in ['molar', 'molal', 'mass', 'volume']:
        out.append({'id': f"concentration-precision/{group}", 'fn': 'h_conc_precision', 'round': 'delta', 'max_paths': 50,
                    'params': {'group': group}})
    out.append({'id': "concentration/special", 'fn': 'h_special', 'round': 'lite', 'max_paths': 50, 'params': {}})
    out.append({'id': "equivalent/parse", 'fn': 'h_equiv_parse', 'round': 'lite', 'max_paths': 50, 'params': {}})
    for sc in ['ctor', 'transfer', 'create_solution', 'dilute', 'get_concentration', 'fill_to', 'create_solution_from/molar',
               'create_solution_from/v/v', 'create_solution_from/w/w', 'create_solution_from/g/L', 'create_solution/v/v',
               'create_solution/w/w', 'create_solution/g/L', 'create_solution/molal']:
        out.append({'id': f"equivalent/{sc}", 'fn': 'h_equiv_use', 'round': 'lite', 'max_paths': 300, 'cost': 3,
                    'params': {'scenario': sc}})
    return out


def h_quantity(h):
    U = h.env.Unit
    base = h.p['base']
    v = h.real('v', -10**6, 10**6)
    h.outcome = 'ok'
    for p in ALL_PREFIXES:
        got, unit = U.parse_quantity(f"{v} {p}{base}")
        h.require('quantity:unit', h.true(unit == base), region=p + base)
        h.require('quantity:value', h.eq(got, v * PREFIX[p]), region=p + base,
                  detail=f"'v {p}{base}' denotes v * {PREFIX[p]} {base}")


def h_concentration(h):
    U = h.env.Unit
    n, d = h.p['n'], h.p['d']
    v = h.real('v', Fr(1, 10**6), 10**6)
    w = h.real('w', Fr(1, 10**6), 10**6)
    h.outcome = 'ok'
    for pn in ALL_PREFIXES:
        for pd in ALL_PREFIXES:
            got = U.parse_concentration(f"{v} {pn}{n}/{pd}{d}")
            h.require('concentration:units', h.true(got[1] == n and got[2] == d), region=f"{n}/{d}")
            want = v * PREFIX[pn] / PREFIX[pd]
            h.require('concentration:value', h.eq(got[0], want), region=f"{n}/{d}",
                      detail=f"'v {pn}{n}/{pd}{d}'")
    for pn, pd in [('m', 'u'), ('', 'k'), ('µ', ''), ('da', 'n')]:
        got = U.parse_concentration(f"{v} {pn}{n}/{w} {pd}{d}")
        h.require('concentration:value-with-denominator', h.eq(got[0] * w * PREFIX[pd], v * PREFIX[pn], h.rs(h.ulp * w * 2)),
                  region=f"{n}/{d}", detail=f"'v {pn}{n}/w {pd}{d}' = v*{PREFIX[pn]}/(w*{PREFIX[pd]})")


SMALL = {
    'molar': [('nM', Fr(1, 10**9)), ('nmol/L', Fr(1, 10**9)), ('umol/kL', Fr(1, 10**9)), ('nmol/10 L', Fr(1, 10**10))],
    'molal': [('umol/kg', Fr(1, 10**9)), ('nmol/g', Fr(1, 10**9)), ('um', Fr(1, 10**9)), ('nmol/kg', Fr(1, 10**12))],
    'mass': [('ug/kg', Fr(1, 10**9)), ('ng/g', Fr(1, 10**9)), ('ng/L', Fr(1, 10**9)), ('ug/kL', Fr(1, 10**9))],
    'volume': [('nL/L', Fr(1, 10**9)), ('uL/kL', Fr(1, 10**9)), ('nL/mol', Fr(1, 10**9))],
}


def h_conc_precision(h):
    """'0.25 nM' denotes 2.5e-10 mol/L: the parsed value agrees with the denoted one to a millionth of its size"""
    U = h.env.Unit
    v = h.real('v', Fr(1, 100), 1) + h.const('0.0012345')
    h.outcome = 'ok'
    for spelling, factor in SMALL[h.p['group']]:
        got = U.parse_concentration(f"{v} {spelling}")
        # (compared in the unit as written, so that the comparison itself is well scaled in floats)
        h.require('concentration:significant-digits', h.eq(got[0] / factor, v, v * Fr(1, 10**6)), region=spelling,
                  detail=f"'v {spelling}' denotes v * {float(factor):g} in base units")


def h_special(h):
    U = h.env.Unit
    v = h.real('v', Fr(1, 10**6), 10**6)
    h.outcome = 'ok'
    wn, wd = h.env.config.default_weight_volume_units.split('/')
    (pwn, bwn), (pwd, bwd) = split_unit(wn), split_unit(wd)
    cases = [('M', ('mol', 'L'), Fr(1)), ('mM', ('mol', 'L'), Fr(1, 1000)), ('uM', ('mol', 'L'), Fr(1, 10**6)),
             ('m', ('mol', 'g'), Fr(1, 1000)), ('mm', ('mol', 'g'), Fr(1, 10**6)),
             ('%w/w', ('g', 'g'), Fr(1, 100)), ('%v/v', ('L', 'L'), Fr(1, 100)),
             ('%w/v', (bwn, bwd), Fr(1, 100) * PREFIX[pwn] / PREFIX[pwd])]
    for spelling, units, factor in cases:
        got = U.parse_concentration(f"{v} {spelling}")
        h.require('special:units', h.true((got[1], got[2]) == units), region=spelling, detail=f"'v {spelling}' -> {got[1]}/{got[2]}")
        h.require('special:value', h.eq(got[0], v * factor), region=spelling,
                  detail=f"'v {spelling}' denotes v * {factor} {units[0]}/{units[1]}")


def _classes(v):
    """lists of spellings that denote the same concentration (v symbolic)"""
    return {
        'molar': [f"{v} M", f"{v} mol/L", f"{v} mmol/mL", f"{v} umol/uL", f"{v / 100} mmol/10 uL", f"{v * 1000} mM",
                  f"{v} kmol/kL", f"{v * 10} mol/10 L"],
        'molal': [f"{v} m", f"{v} mol/kg", f"{v} mmol/g", f"{v * 1000} mm", f"{v / 1000} mol/g"],
        'w/w': [f"{v} %w/w", f"{v / 100} g/g", f"{v * 10} mg/g", f"{v} g/100 g", f"{v / 100} kg/kg"],
        'v/v': [f"{v} %v/v", f"{v / 100} L/L", f"{v * 10} mL/L", f"{v} mL/100 mL"],
        'g/L': [f"{v} g/L", f"{v} mg/mL", f"{v / 1000} g/mL", f"{v} ug/uL", f"{v / 10} g/100 mL"],
        'U/mL': [f"{v} U/mL", f"{v} kU/L", f"{v * 1000} mU/mL", f"{v / 1000} U/uL"],
    }


def h_equiv_parse(h):
    U = h.env.Unit
    v = h.real('v', Fr(1, 10**3), 10**3)
    h.outcome = 'ok'
    for cname, spellings in _classes(v).items():
        ref = U.parse_concentration(spellings[0])
        for sp in spellings[1:]:
            got = U.parse_concentration(sp)
            h.require('equivalent:same-units', h.true(got[1:] == ref[1:]), region=cname, detail=f"{sp} vs {spellings[0]}")
            h.require('equivalent:same-value', h.eq(got[0], ref[0], h.rs(2 * h.ulp)), region=cname,
                      detail=f"'{sp}' and '{spellings[0]}' denote the same concentration")


def _same_container(h, label, a, b, region):
    keys = set(a.contents) == set(b.contents)
    h.require(f'{label}:substances', h.true(keys), region)
    if keys:
        for s in a.contents:
            h.require(f'{label}:amounts', h.eq(a.contents[s], b.contents[s], h.rs(h.ulp * 100 * (1 + a.contents[s]) * Fr(1, 10**3))), region,
                      detail=f"{s.name} differs between equivalent spellings")
    h.require(f'{label}:volume', h.eq(a.volume, b.volume, h.rs(h.ulp * 100 * (1 + a.volume) * Fr(1, 10**3))), region)


def h_equiv_use(h):
    sc = h.p['scenario']
    C = h.env.Container
    lib = Lib(h, ['water', 'NaCl', 'lipase'])
    water, salt, lip = lib['water'], lib['NaCl'], lib['lipase']
    h.outcome = 'ok'
    v = h.real('v', Fr(1, 100), 10**3)
    try:
        if sc == 'ctor':
            spell = [[(water, f"{v} mL"), (salt, f"{v} mg"), (lip, f"{v} U")],
                     [(water, f"{v * 1000} uL"), (salt, f"{v / 1000} g"), (lip, f"{v / 1000} kU")],
                     [(water, f"{v / 1000} L"), (salt, f"{v * 1000} ug"), (lip, f"{v * 1000} mU")],
                     [(water, f"{v / 10} cL"), (salt, f"{v / 10} cg"), (lip, f"{v / 10} daU")]]
            res = [C('c', f"{2 * v} {u}", s) for u, s in zip(['mL', 'mL', 'mL', 'mL'], spell)]
            res.append(C('c', f"{2 * v * 1000} uL", spell[0]))
            res.append(C('c', f"{2 * v / 1000} L", spell[1]))
        elif sc == 'transfer':
            src = C('src', initial_contents=[(water, '5000 mL'), (salt, '10 g'), (lip, '7 U')])
            dst = C('dst')
            res = [C.transfer(src, dst, q)[1] for q in (f"{v} mL", f"{v * 1000} uL", f"{v / 1000} L", f"{v / 10} cL", f"{v / 100} dL")]
            res2 = [C.transfer(src, dst, q)[1] for q in (f"{v} mg", f"{v / 1000} g", f"{v * 1000} ug", f"{v / 10**6} kg")]
            for r in res2[1:]:
                _same_container(h, 'transfer-by-mass', res2[0], r, 'transfer')
        elif sc == 'create_solution':
            T = h.real('T', Fr(1, 10), 10**3)
            h.assume(h.le(v, 5))
            res = [C.create_solution(salt, water, name='s', concentration=c, total_quantity=t)
                   for c, t in zip(_classes(v)['molar'][:6], [f"{T} mL", f"{T * 1000} uL", f"{T / 1000} L", f"{T} mL", f"{T / 10} cL", f"{T} mL"])]
        elif sc.startswith('create_solution_from/') or sc.startswith('create_solution/'):
            # a liquid solute, so that every class (also v/v) applies; each class of spellings must give one and the same
            # solution, and that solution must have the concentration the first spelling denotes (reference arithmetic)
            cname = sc.split('/', 1)[1]
            lib2 = Lib(h, ['water', 'DMSO'])
            w2, dmso = lib2['water'], lib2['DMSO']
            factor = {'molar': 1, 'v/v': 5, 'w/w': 5, 'g/L': 50, 'molal': 1}[cname]
            cu = {'molar': 'M', 'v/v': '%v/v', 'w/w': '%w/w', 'g/L': 'g/L', 'molal': 'm'}[cname]
            h.assume(h.le(v, 5))
            T = h.real('T', Fr(1, 10), 10**3)
            spellings = _classes(v * factor)[cname]
            if sc.startswith('create_solution_from/'):
                stock = C('stock', initial_contents=[(w2, '50 mL'), (dmso, '50 mL')])
                res = [C.create_solution_from(stock, dmso, sp, w2, f"{T} mL", name='s')[1] for sp in spellings]
            else:
                res = [C.create_solution(dmso, w2, name='s', concentration=sp, total_quantity=f"{T} mL") for sp in spellings]
            nb, db, scale = conc_def(h, cu)
            num = lib2.amount(dmso, res[0].contents.get(dmso, 0), nb)
            den = lib2.total(res[0].contents, db)
            h.require('meaning', h.eq(num * scale, v * factor * den, h.rs(Fr(1, 10**6) * (scale * num + v * factor * den))),
                      region=sc, detail=f"the solution made for '{spellings[0]}' has that concentration of DMSO")
        elif sc == 'dilute':
            c = C('c', initial_contents=[(water, '100 mL'), (salt, '50 g')])
            h.assume(h.le(v, 5))
            res = [c.dilute(salt, sp, water) for sp in _classes(v)['molar'][:6]]
            res2 = [c.dilute(salt, sp, water) for sp in _classes(v / 10)['w/w']]
            for r in res2[1:]:
                _same_container(h, 'dilute-w/w', res2[0], r, 'dilute')
        elif sc == 'fill_to':
            c = C('c', initial_contents=[(salt, '1 mg')])
            res = [c.fill_to(water, q) for q in (f"{v} mL", f"{v * 1000} uL", f"{v / 1000} L")]
        elif sc == 'get_concentration':
            c = C('c', initial_contents=[(water, f"{v} mL"), (salt, '3 g'), (lip, '20 U')])
            pairs = [('M', 'mol/L', 1), ('M', 'mmol/mL', 1), ('mM', 'mmol/L', 1), ('m', 'mol/kg', 1), ('g/L', 'mg/mL', 1),
                     ('%w/w', 'g/g', 100), ('mg/g', 'g/kg', 1), ('uM', 'umol/L', 1)]
            for a, b, k in pairs:
                ga, gb = c.get_concentration(salt, a), c.get_concentration(salt, b)
                h.require('get_concentration:equivalent-units', h.eq(ga, gb * k, h.rs(h.ulp * 10**4)), region=f"{a}~{b}",
                          detail=f"get_concentration in '{a}' vs '{b}'")
            ga, gb = c.get_concentration(lip, 'U/mL'), c.get_concentration(lip, 'kU/L')
            h.require('get_concentration:equivalent-units', h.eq(ga, gb, h.rs(h.ulp * 10**4)), region='U/mL~kU/L')
            return
    except ValueError:
        h.outcome = 'refused'
        return
    for r in res[1:]:
        _same_container(h, sc, res[0], r, sc)


META = {
    'generator': 'vf/xh/c14_conditions.py',
    'explanation': ("Grammar part: each condition takes a symbolic string (all of unicode), passes it to the real "
                    "Unit.parse_quantity / Unit.parse_concentration and compares accept/reject and the parsed value with a "
                    "recogniser written with plain string operations and its own prefix table: parsed => recognised and "
                    "value correct; recognised => parsed. 'Confirmed over all paths' = exhaustive for the stated length; "
                    "'Not confirmed' = no counterexample within the budget (bug-hunting only)."),
    'functions': ['pyplate/pyplate.py:Unit.parse_quantity', 'pyplate/pyplate.py:Unit.parse_concentration',
                  'pyplate/pyplate.py:Unit.convert_prefix_to_multiplier'],
    'bounds': BOUNDS, 'outside': OUTSIDE, 'assumptions': ASSUMPTIONS,
}


def main(args, seed):
    import sys
    mod = sys.modules[__name__]
    mod_name = __name__
    if args.replay:
        with open(args.replay) as f:
            payload = json.load(f)
        if payload.get('engine') == 'crosshair':
            path = xhdriver.generate(TEMPLATE, 'c14', [])
            out = xhdriver.replay_call(path, payload['call'])
            print(json.dumps({'call': payload['call'], 'result': out}))
            if out == 'false':
                print(f"VIOLATION property={PROPERTY} replay={args.replay}")
                return 1
            return 0
        return do_replay(mod_name, args.replay)
    code1, ev1 = run_symx(mod, mod_name, PROPERTY, args, seed)
    path = xhdriver.generate(TEMPLATE, 'c14', [])
    timeout = 75 if args.tier == 'quick' else 400
    jobs = [(path, fn, line, timeout) for fn, line in xhdriver.functions_in(path) if not args.cell or args.cell in fn]
    code2, ev2 = (0, None)
    if jobs and (not args.cell or any(args.cell in j[1] for j in jobs)):
        code2, ev2 = xhdriver.run_all(PROPERTY, jobs, args.j, META, args.tier, seed, known=load_known(), write=False)
    if ev1 is not None and ev2 is not None and not args.cell and not args.no_evidence:
        ev1['coverage']['crosshair'] = ev2['coverage']
        ev1['coverage']['explanation'] += ' Grammar part (CrossHair): ' + ev2['coverage']['explanation']
        ev1['violations'] = ev1.get('violations', 0) + ev2.get('violations', 0)
        ev1['wall_s'] = round(ev1['wall_s'] + ev2['wall_s'], 2)
        ev1['assumptions'] = ev1.get('assumptions', []) + ASSUMPTIONS
        save_evidence(PROPERTY, ev1)
    if 1 in (code1, code2):
        return 1
    if 2 in (code1, code2):
        return 2
    return 0
