"""C19 — instructions and human-readable quantities state the true amounts."""
from __future__ import annotations

import re
from fractions import Fraction as Fr

from ..ref import Lib, PREFIX, split_unit
from .common import mk_container, set_volume

PROPERTY = 'C19'
BOUNDS = ("The instruction helpers are NOT stubbed here. Unit.get_human_readable_unit on a symbolic value in [-1e3, 1e3] "
          "(incl. 0) for base units L, g, mol, U; Unit.convert_from_storage_to_standard_format for a solid, a liquid, an "
          "enzyme and a container with a symbolic stored quantity over 13 decades; the instruction text of: the "
          "Container constructor (liquid+solid+enzyme, with and without capacity), Container.transfer from a source "
          "with liquid and from a solids/enzyme-only source (uL, mg, umol, U), dilute, fill_to, create_solution (pure "
          "and container solvent, one solute and a list of two), create_solution_from, and the baked recipe steps create_container, transfer, "
          "create_solution, create_solution_from, remove, dilute, fill_to (container; a whole 2x3 plate whose wells A1, A2, B3 hold equal amounts: every well is named once with its own amount), the constructor with a substance listed twice, the last two also as the second step after a transfer into the same container. Every displayed number is "
          "carried through the text as a tag and compared with the contents delta: |displayed * prefix - true amount| "
          "<= 0.5*10^-digits * prefix. Quantities symbolic over [1e-9, 1e3] base units so every branch of the "
          "rescaling loops is reached (loop bound 3, checked by the path limit). Lite model + output rounding.")
OUTSIDE = ("IEEE rounding; plate fill_to step instructions beyond the 2x3 pattern of text/recipe/fill_to_plate; "
           "HTML/pandas renderings; get_human_readable_unit called with a prefixed unit (not a documented use: the "
           "helper takes the value in the base unit).")
ASSUMPTIONS = ["formatted numbers are carried through text as tags (float(repr(x)) == x)"]
EXPECT_OUTCOMES = ['ok']

NUM = r'(⟦\d+⟧|-?\d+(?:\.\d+)?(?:e-?\d+)?)'


def cells(tier, seed):
    out = []
    for u in ['L', 'g', 'mol', 'U']:
        for rng in ['pos', 'neg', 'zero']:
            out.append({'id': f"helper/human_readable/{u}/{rng}", 'fn': 'h_hru', 'round': 'lite', 'max_paths': 50,
                        'stub_text': False, 'params': {'unit': u, 'range': rng}})
    for what in ['solid', 'liquid', 'enzyme', 'container']:
        out.append({'id': f"helper/standard_format/{what}", 'fn': 'h_std', 'round': 'lite', 'max_paths': 50,
                    'stub_text': False, 'params': {'what': what}})
    texts = ['ctor/capacity', 'ctor/nocap', 'ctor/twice', 'recipe/fill_to_plate', 'transfer/liquid/uL', 'transfer/liquid/mg', 'transfer/solids/mg',
             'transfer/solids/umol', 'transfer/solids/U', 'dilute', 'fill_to/mL', 'fill_to/g', 'create_solution/pure',
             'create_solution/container', 'create_solution/pure2', 'create_solution/container2', 'create_solution_from', 'recipe/create_container', 'recipe/transfer',
             'recipe/solution', 'recipe/solution_from', 'recipe/remove', 'recipe/dilute', 'recipe/fill_to',
             'recipe/fill_to2', 'recipe/dilute2']
    if tier == 'thorough':
        texts += ['transfer/liquid/umol', 'transfer/liquid/U', 'fill_to/mmol', 'plate/transfer']
    for t in texts:
        out.append({'id': f"text/{t}", 'fn': 'h_text', 'round': 'lite', 'max_paths': 400, 'stub_text': False, 'cost': 4,
                    'params': {'text': t}})
    return out


def num(h, token):
    """value of a number token found in a text: the tagged symbolic value, or the float that was printed"""
    if token.startswith('⟦'):
        return h.sym.registry[token]
    return float(token)


def displayed_ok(h, label, token_value, unit, truth_base, region='', detail=''):
    """|displayed * m(prefix) - truth| <= 0.5 * 10^-digits * m(prefix)"""
    prefix, base = split_unit(unit)
    digits = h.env.config.precisions.get(unit, h.env.config.precisions['default'])
    half = Fr(1, 2 * 10**digits)
    m = PREFIX[prefix]
    h.require(label, h.eq(token_value * m, truth_base, half * m + h.rs(h.ulp * 100 * m) + h.rs(Fr(1, 10**12))), region,
              detail=detail or f"the text says {unit}; the true amount differs by more than the displayed precision")
    return base


def h_hru(h):
    U = h.env.Unit
    unit = h.p['unit']
    if h.p['range'] == 'pos':
        v = h.real('v', Fr(1, 10**9), 10**3)
    elif h.p['range'] == 'neg':
        v = h.real('v', -10**3, -Fr(1, 10**9))
    else:
        v = h.const(0)
    got, gunit = U.get_human_readable_unit(v, unit)
    h.outcome = 'ok'
    prefix, base = split_unit(gunit)
    h.require('human_readable:base-unit-kept', h.true(base == unit), detail=f"{unit} became {gunit}")
    mag = v if h.p['range'] != 'neg' else -v
    h.require('human_readable:same-amount', h.eq(got * PREFIX[prefix], mag),
              detail=f"({got}, {gunit}) does not denote |v| {unit}")
    if h.p['range'] == 'pos':
        # human readable: 1 <= value < 1000 whenever the micro prefix suffices
        h.require('human_readable:prefix-in-table', h.true(prefix in ('', 'm', 'u')))


def h_std(h):
    U, C = h.env.Unit, h.env.Container
    lib = Lib(h, ['water', 'NaCl', 'lipase'])
    what = h.p['what']
    qs = h.real('stored', Fr(1, 10**6), 10**9)          # storage units: 1e-12 .. 1e3 mol / L
    h.outcome = 'ok'
    if what == 'container':
        c = C('c')
        got, unit = U.convert_from_storage_to_standard_format(c, qs)
        truth = qs * lib.vol_mult()
        want_base = 'L'
    else:
        s = lib[{'solid': 'NaCl', 'liquid': 'water', 'enzyme': 'lipase'}[what]]
        got, unit = U.convert_from_storage_to_standard_format(s, qs)
        want_base = {'solid': 'g', 'liquid': 'L', 'enzyme': 'U'}[what]
        truth = lib.amount(s, qs, want_base)
    prefix, base = split_unit(unit)
    h.require('standard_format:unit-kind', h.true(base == want_base), detail=f"{what}: reported in {unit}")
    h.require('standard_format:same-amount', h.eq(got * PREFIX[prefix], truth, h.rs(h.ulp * PREFIX[prefix])),
              detail=f"{what}: ({got}, {unit}) does not denote the stored quantity")


def lift_equal(a, b):
    from ..symx import lift
    if getattr(a, 'f', None) is not None or getattr(b, 'f', None) is not None:
        return lift(a) == lift(b)
    return a == b


def _line(text, which=-1):
    lines = [ln for ln in text.splitlines() if ln.strip()]
    return lines[which]


def h_text(h):
    t = h.p['text']
    env = h.env
    C, Plate, Recipe = env.Container, env.Plate, env.Recipe
    lib = Lib(h, ['water', 'NaCl', 'lipase', 'DMSO', 'Na2SO4'])
    water, salt, lip, dmso = lib['water'], lib['NaCl'], lib['lipase'], lib['DMSO']
    h.outcome = 'ok'
    try:
        _text(h, t, env, C, Plate, Recipe, lib, water, salt, lip, dmso)
    except ValueError:
        h.outcome = 'refused'


def _check_add_list(h, lib, text, contents, region):
    """'Add 1.5 mL of water, 2.0 mg of NaCl' part: every item names a substance of `contents` with its true amount"""
    items = re.findall(NUM + r' (\S+) of ([^,.]+?)(?:,| to |\.$|$)', text)
    by_name = {s.name: (s, a) for s, a in contents.items()}
    h.require('text:every-substance-listed', h.true(sorted(n for _, _, n in items) == sorted(by_name)), region,
              detail=f"listed {[n for _, _, n in items]} vs contents {sorted(by_name)} in: {text}")
    for tok, unit, name in items:
        if name not in by_name:
            continue
        s, a = by_name[name]
        base = split_unit(unit)[1]
        displayed_ok(h, 'text:listed-amount', num(h, tok), unit, lib.amount(s, a, base), region,
                     detail=f"'{unit} of {name}' in: {text[:120]}")


def _text(h, t, env, C, Plate, Recipe, lib, water, salt, lip, dmso):
    if t == 'ctor/twice':
        # a substance listed twice in initial_contents (a top-up, or an enzyme given once by activity and once by mass):
        # the amounts the text states for a substance add up to what the container holds
        q2 = h.real('q2', Fr(1, 10**6), 10)        # g of NaCl
        q2b = h.real('q2b', Fr(1, 10**6), 10)      # g of NaCl, again
        q3 = h.real('q3', Fr(1, 10**3), 10**4)     # U of lipase
        q3b = h.real('q3b', Fr(1, 10**3), 10**3)   # mg of lipase
        q1 = h.real('q1', Fr(1, 10**6), 1)         # L of water
        c = C('c', initial_contents=[(salt, f"{q2} g"), (lip, f"{q3} U"), (water, f"{q1} L"), (salt, f"{q2b} g"),
                                     (lip, f"{q3b} mg")])
        items = re.findall(NUM + r' (\S+) of ([^,.]+?)(?:,| to |\.$|$)', c.instructions)
        by_name = {s_.name: (s_, a_) for s_, a_ in c.contents.items()}
        h.require('text:every-substance-listed', h.true(set(n for _, _, n in items) == set(by_name)), 'ctor-twice',
                  detail=c.instructions)
        for name, (s_, a_) in by_name.items():
            mine = [(tok, unit) for tok, unit, n in items if n == name]
            if not mine:
                continue
            base = {'NaCl': 'g', 'water': 'L', 'lipase': 'U'}[name]
            shown, tol = 0, 0
            for tok, unit in mine:
                prefix, ubase = split_unit(unit)
                digits = h.env.config.precisions.get(unit, h.env.config.precisions['default'])
                v = num(h, tok) * PREFIX[prefix]
                half = Fr(1, 2 * 10**digits) * PREFIX[prefix]
                if ubase != base:                   # (an enzyme amount shown by mass: convert by the lot's activity)
                    k = lib.amount(s_, Fr(1), base) / lib.amount(s_, Fr(1), ubase)
                    v, half = v * k, half * k
                shown, tol = shown + v, tol + half
            h.require('text:listed-amounts-add-up', h.eq(shown, lib.amount(s_, a_, base), tol + h.rs(h.ulp * 100) + h.rs(Fr(1, 10**12))),
                      'ctor-twice', detail=f"the amounts of {name} stated in '{c.instructions}' vs what the container holds")
    elif t.startswith('ctor/'):
        q1 = h.real('q1', Fr(1, 10**9), 1)         # L of water
        q2 = h.real('q2', Fr(1, 10**9), 10)        # g of NaCl
        q3 = h.real('q3', Fr(1, 10**6), 10**4)     # U of lipase
        if t.endswith('capacity'):
            cap = h.real('cap', Fr(1, 10**6), 10**3)   # L
            h.assume(h.ge(cap, q1 + q2 / 1000 + q3 / 1000 + Fr(1, 10**6)))
            c = C('c', f"{cap} L", [(water, f"{q1} L"), (salt, f"{q2} g"), (lip, f"{q3} U")])
            m = re.search(r'to a ' + NUM + r' (\S+) container\.$', c.instructions)
            h.require('text:ctor-capacity-stated', h.true(m is not None), detail=c.instructions)
            if m:
                displayed_ok(h, 'text:ctor-capacity', num(h, m.group(1)), m.group(2), cap, 'ctor')
        else:
            c = C('c', initial_contents=[(water, f"{q1} L"), (salt, f"{q2} g"), (lip, f"{q3} U")])
            h.require('text:ctor-nocap', h.true(c.instructions.endswith('to a container.')), detail=c.instructions)
        _check_add_list(h, lib, c.instructions, c.contents, 'ctor')
    elif t.startswith('transfer/'):
        _, kind, unit = t.split('/')
        mix = ['water', 'NaCl', 'lipase'] if kind == 'liquid' else ['NaCl', 'lipase']
        src = mk_container(h, lib, 'SRC', mix, lo=Fr(1, 100), hi=10**6)
        dst = C('DST')
        prefix, base = split_unit(unit)
        q = h.real('q', Fr(1, 10**6), 10**6)
        h.assume(h.lt(q * PREFIX[prefix], lib.total(src.contents, base)))
        s2, d2 = C.transfer(src, dst, f"{q} {unit}")
        line = _line(d2.instructions)
        m = re.match(r'^Transfer ' + NUM + r' (\S+) of (\S+) to (\S+)$', line)
        h.require('text:transfer-line', h.true(m is not None), detail=line)
        if m:
            h.require('text:transfer-names', h.true(m.group(3) == 'SRC' and m.group(4) == 'DST'), detail=line)
            shown_base = split_unit(m.group(2))[1]
            moved = 0
            for s in src.contents:
                moved = moved + lib.amount(s, src.contents[s] - s2.contents[s], shown_base)
            h.require('text:transfer-unit-kind', h.true(shown_base == ('L' if kind == 'liquid' else 'g')), detail=line)
            displayed_ok(h, 'text:transfer-amount', num(h, m.group(1)), m.group(2), moved, kind,
                         detail=f"'{line}' vs what actually moved")
    elif t == 'dilute':
        c = mk_container(h, lib, 'c', ['water', 'NaCl'], lo=1, hi=10**5)
        ct = h.real('ct', Fr(1, 10**6), 10)
        r = c.dilute(salt, f"{ct} M", dmso)
        if dmso not in r.contents:
            return          # inside the no-op tolerance band: an unchanged copy, nothing to say
        line = _line(r.instructions)
        m = re.match(r'^Dilute with ' + NUM + r' (\S+) of (\S+)\.$', line)
        h.require('text:dilute-line', h.true(m is not None), detail=line)
        if m:
            h.require('text:dilute-names', h.true(m.group(3) == 'DMSO'), detail=line)
            added = lib.amount(dmso, r.contents.get(dmso, 0) - c.contents.get(dmso, 0), 'L')
            displayed_ok(h, 'text:dilute-amount', num(h, m.group(1)), m.group(2), added, detail=line)
    elif t.startswith('fill_to/'):
        unit = t.split('/')[1]
        c = mk_container(h, lib, 'c', ['water', 'NaCl'], lo=Fr(1, 100), hi=10**5)
        prefix, base = split_unit(unit)
        T = h.real('T', Fr(1, 10**6), 10**4)
        r = c.fill_to(dmso, f"{T} {unit}")
        line = _line(r.instructions)
        m = re.match(r'^Fill with ' + NUM + r' (\S+) of (\S+)\.$', line)
        h.require('text:fill-line', h.true(m is not None), detail=line)
        if m:
            h.require('text:fill-names', h.true(m.group(3) == 'DMSO'), detail=line)
            added = lib.amount(dmso, r.contents.get(dmso, 0) - c.contents.get(dmso, 0), 'L')
            displayed_ok(h, 'text:fill-amount', num(h, m.group(1)), m.group(2), added, detail=line)
    elif t.startswith('create_solution/'):
        a = h.real('a', Fr(1, 10**4), 5)
        T = h.real('T', Fr(1, 10**6), 10**3)
        # (the '2' variants dissolve two solutes at once: the list forms of the arguments)
        two = t.endswith('2')
        other = lib['Na2SO4']
        b = h.real('b', Fr(1, 10**4), 3) if two else None
        solute_arg = [salt, other] if two else salt
        conc_arg = [f"{a} M", f"{b} M"] if two else f"{a} M"
        if t.endswith('pure') or t.endswith('pure2'):
            r = C.create_solution(solute_arg, water, concentration=conc_arg, total_quantity=f"{T} mL")
            h.require('text:solution-form', h.true(r.instructions.endswith('to a container.')), detail=r.instructions)
            _check_add_list(h, lib, r.instructions, r.contents, 'create_solution')
        else:
            solv = mk_container(h, lib, 'SOLV', ['water', 'DMSO'], lo=10, hi=10**6)
            rest, r = C.create_solution(solute_arg, solv, concentration=conc_arg, total_quantity=f"{T} mL")
            m = re.search(r' to ' + NUM + r' (\S+) of (\S+)\.$', r.instructions)
            h.require('text:solution-container-form', h.true(m is not None), detail=r.instructions)
            if m:
                h.require('text:solution-solvent-name', h.true(m.group(3) == 'SOLV'), detail=r.instructions)
                drawn = 0
                for s in solv.contents:
                    drawn = drawn + lib.amount(s, solv.contents[s] - rest.contents[s], 'L')
                displayed_ok(h, 'text:solution-solvent-amount', num(h, m.group(1)), m.group(2), drawn, detail=r.instructions)
            _check_add_list(h, lib, r.instructions[:m.start()] if m else r.instructions,
                            {s_: r.contents[s_] for s_ in ([salt, other] if two else [salt])}, 'create_solution')
    elif t == 'create_solution_from':
        stock = mk_container(h, lib, 'STOCK', ['water', 'NaCl'], lo=10, hi=10**6)
        ct = h.real('ct', Fr(1, 10**4), 5)
        T = h.real('T', Fr(1, 10**3), 10**3)
        rest, r = C.create_solution_from(stock, salt, f"{ct} M", dmso, f"{T} mL")
        m = re.match(r'^Add ' + NUM + r' mL of (\S+) to ' + NUM + r' mL of (\S+)\.$', r.instructions)
        h.require('text:from-line', h.true(m is not None), detail=r.instructions)
        if m:
            h.require('text:from-names', h.true(m.group(2) == 'DMSO' and m.group(4) == 'STOCK'), detail=r.instructions)
            added = lib.amount(dmso, r.contents.get(dmso, 0), 'L')
            drawn = 0
            for s in stock.contents:
                drawn = drawn + lib.amount(s, stock.contents[s] - rest.contents[s], 'L')
            displayed_ok(h, 'text:from-solvent-amount', num(h, m.group(1)), 'mL', added, detail=r.instructions)
            displayed_ok(h, 'text:from-stock-amount', num(h, m.group(3)), 'mL', drawn, detail=r.instructions)
    elif t.startswith('recipe/'):
        kind = t.split('/')[1]
        A = mk_container(h, lib, 'A', ['water', 'NaCl'], lo=10, hi=10**6)
        B = C('B', '10 L')
        rec = Recipe()
        q = h.real('q', Fr(1, 10**3), 10**4)
        if kind == 'create_container':
            rec.create_container('K', '1 L', [(water, f"{q} uL")])
            rec.bake()
            h.require('text:step', h.true(rec.steps[0].instructions == "Create container 'K'."), detail=rec.steps[0].instructions)
        elif kind == 'transfer':
            rec.uses(A, B)
            rec.transfer(A, B, f"{q} uL")
            res = rec.bake()
            m = re.match(r"^Transfer " + NUM + r" uL from 'A' to 'B'\.$", rec.steps[0].instructions)
            h.require('text:step', h.true(m is not None), detail=rec.steps[0].instructions)
            if m:
                moved = lib.total(res['B'].contents, 'L')
                h.require('text:step-amount', h.eq(num(h, m.group(1)) * PREFIX['u'], moved, h.rs(h.ulp * 10)),
                          detail="the step states the quantity that was moved")
        elif kind == 'solution':
            rec.create_solution(salt, water, name='S', concentration=f"{q} mM" if False else '0.1 M', total_quantity=f"{q} uL")
            res = rec.bake()
            m = re.match(r"^Create a solution of 'NaCl' in 'water' with a concentration of 0\.1 M\s+and a total quantity of "
                         + NUM + r" uL\.$", rec.steps[0].instructions)
            h.require('text:step', h.true(m is not None), detail=rec.steps[0].instructions)
            if m:
                h.require('text:step-amount', h.eq(num(h, m.group(1)) * PREFIX['u'], lib.total(res['S'].contents, 'L'),
                                                   h.rs(h.ulp * 10)))
        elif kind == 'solution_from':
            rec.uses(A)
            h.assume(h.ge(A.contents[salt] * 1000, A.contents[water] * Fr(1, 100)))
            rec.create_solution_from(A, salt, '0.0001 M', water, f"{q} uL", name='F')
            res = rec.bake()
            m = re.match(r"^Create " + NUM + r" uL of a 0\.0001 M solution of 'NaCl'\s+in 'water' from 'A'\.$",
                         rec.steps[0].instructions)
            h.require('text:step', h.true(m is not None), detail=rec.steps[0].instructions)
            if m:
                h.require('text:step-amount', h.eq(num(h, m.group(1)) * PREFIX['u'], lib.total(res['F'].contents, 'L'),
                                                   h.rs(Fr(1, 10**6))))
        elif kind == 'remove':
            rec.uses(A)
            rec.remove(A, water)
            rec.remove(A, env.Substance.SOLID)
            rec.bake()
            h.require('text:step', h.true(rec.steps[0].instructions == "Remove water from 'A'." and
                                           rec.steps[1].instructions == "Remove all Solids from 'A'."),
                      detail=str([s.instructions for s in rec.steps]))
        elif kind == 'dilute':
            rec.uses(A)
            ct = h.real('ct', Fr(1, 10**6), 10)
            rec.dilute(A, salt, f"{ct} M", water)
            res = rec.bake()
            m = re.match(r"^Dilute 'NaCl' in 'A' to " + NUM + r" M by adding " + NUM + r" (\S+) of 'water'\.$",
                         rec.steps[0].instructions)
            h.require('text:step', h.true(m is not None), detail=rec.steps[0].instructions)
            if m:
                added = lib.amount(water, res['A'].contents[water] - A.contents[water], 'L')
                displayed_ok(h, 'text:step-amount', num(h, m.group(2)), m.group(3), added, detail=rec.steps[0].instructions)
        elif kind in ('fill_to2', 'dilute2'):
            # the step under test comes second: an earlier transfer already put solvent (and salt) into B
            rec.uses(A, B)
            quantity = f"{q} uL"
            h.assume(h.lt(q * PREFIX['u'], lib.total(A.contents, 'L')))
            rec.transfer(A, B, quantity)
            _, B1 = C.transfer(A, B, quantity)          # the state of B when the second step runs
            if kind == 'fill_to2':
                T = h.real('T', Fr(1, 10**3), 10**7)
                h.assume(h.gt(T * PREFIX['u'], lib.total(B1.contents, 'L')))
                rec.fill_to(B, water, f"{T} uL")
                res = rec.bake()
                m = re.match(r"^Fill 'B' with 'water' up to " + NUM + r" uL by adding " + NUM + r" (\S+)\.$",
                             rec.steps[1].instructions)
            else:
                ct = h.real('ct', Fr(1, 10**6), 10)
                rec.dilute(B, salt, f"{ct} M", water)
                res = rec.bake()
                if lift_equal(res['B'].contents[water], B1.contents[water]):
                    return
                m = re.match(r"^Dilute 'NaCl' in 'B' to " + NUM + r" M by adding " + NUM + r" (\S+) of 'water'\.$",
                             rec.steps[1].instructions)
            h.require('text:step', h.true(m is not None), detail=rec.steps[1].instructions)
            if m:
                added = lib.amount(water, res['B'].contents[water] - B1.contents[water], 'L')
                displayed_ok(h, 'text:step-amount', num(h, m.group(2)), m.group(3), added, region='after-earlier-step',
                             detail=rec.steps[1].instructions + ' (the container already held solvent from an earlier step)')
        elif kind == 'fill_to_plate':
            # a whole plate filled up: wells A1, A2 and B3 hold the same amount (they form one group of the step's text:
            # a horizontal run plus a well of the next row), the other three wells hold different amounts
            P = Plate('P', '10 mL', rows=2, columns=3)
            same = h.real('w.same', 1, 100)
            others = {(0, 2): h.real('w.A3', 1, 100), (1, 0): h.real('w.B1', 1, 100), (1, 1): h.real('w.B2', 1, 100)}
            for rc in [(r_, c_) for r_ in range(2) for c_ in range(3)]:
                P.wells[rc].contents[water] = (others.get(rc, same)) * (lib.storage_from(water, Fr(1), 'uL'))
                set_volume(h, lib, P.wells[rc])
            T = h.real('T', 500, 900)
            rec.uses(P)
            rec.fill_to(P, water, f"{T} uL")
            res = rec.bake()
            text = rec.steps[0].instructions
            m = re.match(r"^Fill 'P' with 'water' up to " + NUM + r" uL by adding: (.*)\.$", text)
            h.require('text:step', h.true(m is not None), detail=text)
            if m:
                stated = {}
                twice = []
                for tok, unit, addr in re.findall(NUM + r' (\S+) to \[([^\]]*)\]', m.group(2)):
                    for a_ in addr.split(', '):
                        ends = a_.split(':')
                        (r0, c0), (r1, c1) = [('AB'.index(e[0]), int(e[1:]) - 1) for e in (ends[0], ends[-1])]
                        for rr in range(r0, r1 + 1):
                            for cc in range(c0, c1 + 1):
                                if (rr, cc) in stated:
                                    twice.append((rr, cc))
                                stated[(rr, cc)] = (tok, unit)
                h.require('text:plate-fill-each-well-once', h.true(not twice and len(stated) == 6), 'plate-fill',
                          detail=f"wells named twice {twice}, wells named {sorted(stated)} in: {text}")
                for rc, (tok, unit) in stated.items():
                    added = lib.amount(water, res['P'].wells[rc].contents[water] - P.wells[rc].contents[water], 'L')
                    displayed_ok(h, 'text:plate-fill-amount', num(h, tok), unit, added, 'plate-fill',
                                 detail=f"well {'AB'[rc[0]]}{rc[1] + 1} in: {text}")
        elif kind == 'fill_to':
            rec.uses(A)
            T = h.real('T', Fr(1, 10**3), 10**7)
            rec.fill_to(A, water, f"{T} uL")
            res = rec.bake()
            m = re.match(r"^Fill 'A' with 'water' up to " + NUM + r" uL by adding " + NUM + r" (\S+)\.$",
                         rec.steps[0].instructions)
            h.require('text:step', h.true(m is not None), detail=rec.steps[0].instructions)
            if m:
                added = lib.amount(water, res['A'].contents[water] - A.contents[water], 'L')
                displayed_ok(h, 'text:step-amount', num(h, m.group(2)), m.group(3), added, detail=rec.steps[0].instructions)
    elif t == 'plate/transfer':
        src = mk_container(h, lib, 'SRC', ['water', 'NaCl'], lo=10, hi=10**6)
        P = Plate('P', '10 L', rows=1, columns=2)
        q = h.real('q', Fr(1, 10**3), 10**4)
        h.assume(h.lt(2 * q * PREFIX['u'], lib.total(src.contents, 'L')))
        s2, P2 = Plate.transfer(src, P, f"{q} uL")
        for k in range(2):
            line = _line(P2.wells[0, k].instructions)
            m = re.match(r'^Transfer ' + NUM + r' (\S+) of SRC to (.+)$', line)
            h.require('text:transfer-line', h.true(m is not None), detail=line)
            if m:
                displayed_ok(h, 'text:transfer-amount', num(h, m.group(1)), m.group(2),
                             lib.total(P2.wells[0, k].contents, 'L'), 'plate', detail=line)
    else:
        raise KeyError(t)
