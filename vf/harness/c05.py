"""C05 — create_solution meets every stated constraint or refuses."""
from __future__ import annotations

import itertools
from fractions import Fraction as Fr

from ..ref import Lib, PREFIX, split_unit
from .common import mk_container

PROPERTY = 'C05'
BOUNDS = ("Container.create_solution with 1-2 (thorough: 3) solutes out of {NaCl, Na2SO4, DMSO, lipase}, solvent = water, "
          "DMSO, or a container holding water+triethylamine, water+NaCl+amylase or water+NaCl with NaCl also the solute (symbolic amounts); any two of concentration / quantity / total "
          "quantity; scalar and per-solute lists (also with different units per solute); concentration spellings M, m, "
          "g/L, mg/g, mol/mol, mL/L, umol/mL, mmol/kg, %w/w, %w/v, %v/v, U/mL, U/g, kU/L, g/mol; quantity units g, mg, mL, "
          "mmol, U; total in mL, g, mol. Every value symbolic (concentrations in [1e-6, 1e4], quantities in [1e-6, 1e5]) "
          "so both sides of feasibility are explored. Lite rounding model; numpy.linalg.solve = exact contract.")
OUTSIDE = ("IEEE rounding and LAPACK error; more than 3 solutes; "
           "over-determined requests are explored for 2 solutes only (each stated value must be met to a relative 2e-6).")
ASSUMPTIONS = ["numpy.linalg.solve replaced by: singular -> LinAlgError, otherwise the unique solution (Cramer's rule)",
               "instruction-text helpers are replaced by non-forking summaries (subject of C19)"]
EXPECT_OUTCOMES = ['ok', 'refused']

CONTAINER_SOLVENT = ['water', 'triethylamine']
SALTY_SOLVENT = ['water', 'NaCl']                     # a solvent container that already holds some of the solute
BRINE_SOLVENT = ['water', 'NaCl', 'amylase']          # a liquid, a dissolved solid and an enzyme


def _cell(i, solutes, solvent, given, cu=None, qu=None, tu=None, **kw):
    cid = f"{'+'.join(solutes)}/{solvent if isinstance(solvent, str) else 'container'}/{'+'.join(given)}"
    if cu:
        cid += '/' + '|'.join(c.replace('/', '_') for c in (cu if isinstance(cu, list) else [cu]))
    if qu:
        cid += '/q=' + '|'.join(qu if isinstance(qu, list) else [qu])
    if tu:
        cid += '/t=' + tu
    return {'id': cid, 'fn': 'h_solution', 'round': 'lite', 'max_paths': 300, 'cost': 2 + len(solutes) * 2,
            'params': dict(solutes=solutes, solvent=solvent, given=given, cu=cu, qu=qu, tu=tu, **kw)}


def cells(tier, seed):
    out = []
    one = [['NaCl'], ['DMSO'], ['lipase']]
    concs_all = ['M', 'm', 'g/L', 'mg/g', 'mol/mol', 'mL/L', 'umol/mL', 'mmol/kg', '%w/w', '%w/v', '%v/v', 'g/mol']
    concs_enz = ['U/mL', 'U/g', 'kU/L', 'mg/g', '%w/w']
    i = 0
    # single solute, conc + total
    for sol in one:
        for cu in (concs_enz if sol == ['lipase'] else concs_all):
            for solvent in (['water', 'container'] if tier == 'quick' else ['water', 'DMSO', 'container']):
                if sol == ['DMSO'] and solvent == 'DMSO':
                    continue
                for tu in (['mL', 'g', 'mol'] if tier == 'thorough' else (['mL'] if cu not in ('m', 'mg/g') else ['g'])):
                    if tier == 'quick' and solvent == 'container' and cu not in ('M', 'mg/g', '%w/v', 'U/mL', 'mol/mol'):
                        continue
                    out.append(_cell(i, sol, solvent, ['concentration', 'total_quantity'], cu=cu, tu=tu)); i += 1
    # single solute, quantity + total ; concentration + quantity
    for sol in one:
        for qu in (['g', 'mL', 'mmol'] if sol != ['lipase'] else ['U', 'mg']):
            for solvent in ['water', 'container']:
                out.append(_cell(i, sol, solvent, ['quantity', 'total_quantity'], qu=qu, tu='mL')); i += 1
                if tier == 'thorough':
                    out.append(_cell(i, sol, solvent, ['quantity', 'total_quantity'], qu=qu, tu='g')); i += 1
            cu = 'U/mL' if sol == ['lipase'] else 'M'
            out.append(_cell(i, sol, 'water', ['concentration', 'quantity'], cu=cu, qu=qu)); i += 1
            if tier == 'thorough':
                out.append(_cell(i, sol, 'container', ['concentration', 'quantity'], cu='mg/g', qu=qu)); i += 1
    # two solutes
    pairs = [['NaCl', 'Na2SO4'], ['NaCl', 'lipase'], ['DMSO', 'NaCl']]
    for pair in pairs:
        for solvent in (['water'] if tier == 'quick' else ['water', 'container']):
            cu2 = ['M', 'U/mL'] if 'lipase' in pair else ['M', 'mg/g']
            out.append(_cell(i, pair, solvent, ['concentration', 'total_quantity'], cu='mg/g' if 'lipase' in pair else 'M', tu='mL')); i += 1
            out.append(_cell(i, pair, solvent, ['concentration', 'total_quantity'], cu=cu2, tu='g')); i += 1
            qu2 = ['g', 'U'] if 'lipase' in pair else ['g', 'mmol']
            out.append(_cell(i, pair, solvent, ['quantity', 'total_quantity'], qu=qu2, tu='mL')); i += 1
            out.append(_cell(i, pair, solvent, ['quantity', 'total_quantity'], qu='mg', tu='g')); i += 1
    out.append(_cell(i, ['NaCl', 'Na2SO4'], 'water', ['concentration', 'quantity'], cu='M', qu='g')); i += 1
    # over-determined with independent values per solute (both directions of an inconsistent quantity are reachable)
    out.append(_cell(i, ['NaCl', 'Na2SO4'], 'water', ['concentration', 'quantity'], cu=['M', 'M'], qu=['g', 'g'])); i += 1
    out.append(_cell(i, ['Na2SO4', 'NaCl'], 'container', ['concentration', 'quantity'], cu=['mg/g', 'mg/g'], qu=['mg', 'mg'])); i += 1
    # totals stated in moles (enzymes count as 0 mol, like everywhere else in the library), also in the quick tier
    out.append(_cell(i, ['lipase'], 'water', ['concentration', 'total_quantity'], cu='U/mL', tu='mol')); i += 1
    out.append(_cell(i, ['lipase'], 'water', ['quantity', 'total_quantity'], qu='U', tu='mol')); i += 1
    out.append(_cell(i, ['NaCl', 'lipase'], 'water', ['concentration', 'total_quantity'], cu=['M', 'U/mL'], tu='mol')); i += 1
    out.append(_cell(i, ['NaCl'], 'container', ['concentration', 'total_quantity'], cu='M', tu='mol')); i += 1
    # a solvent container that already holds some of the solute (the solution must still have the stated concentration)
    for cu, tu in [('M', 'mL'), ('mg/g', 'g'), ('mol/mol', 'mL')]:
        out.append(_cell(i, ['NaCl'], 'salty', ['concentration', 'total_quantity'], cu=cu, tu=tu)); i += 1
    out.append(_cell(i, ['NaCl'], 'salty', ['quantity', 'total_quantity'], qu='g', tu='mL')); i += 1
    out.append(_cell(i, ['NaCl'], 'salty', ['concentration', 'quantity'], cu='M', qu='mmol')); i += 1
    out.append(_cell(i, ['NaCl', 'Na2SO4'], 'salty', ['concentration', 'total_quantity'], cu='M', tu='mL')); i += 1
    # a solvent container that holds a dissolved solid (brine) / an enzyme
    for sol, cu, tu in [(['DMSO'], 'M', 'mL'), (['DMSO'], 'mg/g', 'g'), (['DMSO'], 'mmol/kg', 'g'), (['lipase'], 'U/mL', 'mL')]:
        out.append(_cell(i, sol, 'brine', ['concentration', 'total_quantity'], cu=cu, tu=tu)); i += 1
    out.append(_cell(i, ['DMSO'], 'brine', ['quantity', 'total_quantity'], qu='g', tu='g')); i += 1
    # per-solute concentrations that share a numerator (or a denominator) unit but not both
    for solvent in (['DMSO'] if tier == 'quick' else ['DMSO', 'water', 'container']):
        for cu2 in [['M', 'm'], ['m', 'M'], ['mg/g', 'g/L'], ['M', 'mol/mol'], ['g/L', 'M']]:
            out.append(_cell(i, ['NaCl', 'Na2SO4'], solvent, ['concentration', 'total_quantity'], cu=cu2, tu='mL')); i += 1
    if tier == 'thorough':
        tri = ['NaCl', 'Na2SO4', 'DMSO']
        out.append(_cell(i, tri, 'water', ['concentration', 'total_quantity'], cu='M', tu='mL')); i += 1
        out.append(_cell(i, tri, 'water', ['concentration', 'total_quantity'], cu=['M', 'mg/g', '%v/v'], tu='g')); i += 1
        out.append(_cell(i, tri, 'container', ['quantity', 'total_quantity'], qu=['g', 'mmol', 'mL'], tu='mL')); i += 1
    return out


def conc_def(h, cu):
    """(numerator base, denominator base, scale): value in `cu` = num/den*scale."""
    if cu == 'M':
        return 'mol', 'L', Fr(1)
    if cu == 'm':
        return 'mol', 'g', Fr(1000)
    if cu in ('%w/w', '%v/v'):
        b = 'g' if cu == '%w/w' else 'L'
        return b, b, Fr(100)
    if cu == '%w/v':
        wn, wd = h.env.config.default_weight_volume_units.split('/')
        pn, n = split_unit(wn)
        pd, d = split_unit(wd)
        return n, d, 100 * PREFIX[pd] / PREFIX[pn]
    un, ud = cu.split('/')
    pn, n = split_unit(un)
    pd, d = split_unit(ud)
    return n, d, PREFIX[pd] / PREFIX[pn]


def _det(M):
    n = len(M)
    if n == 1:
        return M[0][0]
    if n == 2:
        return M[0][0] * M[1][1] - M[0][1] * M[1][0]
    total = 0
    for j in range(n):
        minor = [row[:j] + row[j + 1:] for row in M[1:]]
        t = M[0][j] * _det(minor)
        total = total - t if j % 2 else total + t
    return total


def h_solution(h):
    p = h.p
    C = h.env.Container
    solutes_n = p['solutes']
    n = len(solutes_n)
    container_solvent = p['solvent'] in ('container', 'brine', 'salty')
    comp_names = {'brine': BRINE_SOLVENT, 'salty': SALTY_SOLVENT}.get(p['solvent'], CONTAINER_SOLVENT)
    names = set(solutes_n) | (set(comp_names) if container_solvent else {p['solvent']})
    lib = Lib(h, names)
    solutes = [lib[s] for s in solutes_n]
    if container_solvent:
        solv = mk_container(h, lib, 'solv', comp_names, lo=10**3, hi=10**6)
        solv_comp = dict(solv.contents)
        solvent_arg = solv
    else:
        solvent_arg = lib[p['solvent']]
        solv_comp = {solvent_arg: 1}

    def solvent_per_unknown(base):
        """base units contributed per unit of the solvent unknown t (stored amount if pure, aliquot fraction if container)"""
        return lib.total(solv_comp, base)

    given = p['given']
    kwargs = {}
    rows, rhs, row_labels, row_scale = [], [], [], []

    def unit_vec(i):
        return [1 if k == i else 0 for k in range(n + 1)]

    if 'concentration' in given:
        cus = p['cu'] if isinstance(p['cu'], list) else [p['cu']] * n
        cvals = [h.real(f"c{i}", Fr(1, 10**6), 10**4) for i in range(n)]
        if isinstance(p['cu'], list):
            kwargs['concentration'] = [f"{cvals[i]} {cus[i]}" for i in range(n)]
        else:
            cvals = [cvals[0]] * n
            kwargs['concentration'] = f"{cvals[0]} {cus[0]}"
        for i in range(n):
            nb, db, scale = conc_def(h, cus[i])
            den = [lib.amount(solutes[k], Fr(1), db) for k in range(n)] + [solvent_per_unknown(db)]
            row = [-(cvals[i] * den[k]) for k in range(n + 1)]
            row[i] = row[i] + scale * lib.amount(solutes[i], Fr(1), nb)
            if container_solvent and solutes[i] in solv_comp:
                # the solvent aliquot brings some of the solute along
                row[n] = row[n] + scale * lib.amount(solutes[i], solv_comp[solutes[i]], nb)
            rows.append(row)
            rhs.append(0)
            row_labels.append(('concentration', i, cus[i]))
    if 'quantity' in given:
        qus = p['qu'] if isinstance(p['qu'], list) else [p['qu']] * n
        qvals = [h.real(f"q{i}", Fr(1, 10**6), 10**5) for i in range(n)]
        if isinstance(p['qu'], list):
            kwargs['quantity'] = [f"{qvals[i]} {qus[i]}" for i in range(n)]
        else:
            qvals = [qvals[0]] * n
            kwargs['quantity'] = f"{qvals[0]} {qus[0]}"
        for i in range(n):
            pf, qb = split_unit(qus[i])
            row = [0] * (n + 1)
            row[i] = lib.amount(solutes[i], Fr(1), qb)
            if container_solvent and solutes[i] in solv_comp:
                row[n] = lib.amount(solutes[i], solv_comp[solutes[i]], qb)     # (the stated quantity is what the solution holds)
            rows.append(row)
            rhs.append(qvals[i] * PREFIX[pf])
            row_labels.append(('quantity', i, qus[i]))
    if 'total_quantity' in given:
        T = h.real('T', Fr(1, 10**6), 10**5)
        pf, tb = split_unit(p['tu'])
        kwargs['total_quantity'] = f"{T} {p['tu']}"
        rows.append([lib.amount(solutes[k], Fr(1), tb) for k in range(n)] + [solvent_per_unknown(tb)])
        rhs.append(T * PREFIX[pf])
        row_labels.append(('total_quantity', None, p['tu']))

    # ---- reference feasibility: the first n+1 rows determine the mixture (Cramer), the rest must be consistent
    M = [rows[k] for k in range(n + 1)]
    b = [rhs[k] for k in range(n + 1)]
    det = _det(M)
    dets = []
    for k in range(n + 1):
        Mk = [[b[r] if c == k else M[r][c] for c in range(n + 1)] for r in range(n + 1)]
        dets.append(_det(Mk))
    positive = h.all_of([h.ne(det, 0)] + [h.gt(dets[k] * det, 0) for k in range(n + 1)])
    no_positive = h.any_of([h.eq(det, 0)] + [h.le(dets[k] * det, 0) for k in range(n + 1)])
    if container_solvent:
        # the aliquot fraction must not exceed 1 (there must be enough solvent in the container)
        enough = h.le((dets[n] - det) * det, 0)
        not_enough = h.ge((dets[n] - det) * det, 0)
    else:
        enough, not_enough = h.true(True), h.true(False)
    overdetermined = len(rows) > n + 1

    try:
        res = C.create_solution(solutes if n > 1 else solutes[0], solvent_arg, name='sol', **kwargs)
    except ValueError:
        h.outcome = 'refused'
        if overdetermined:
            return       # refusal of an inconsistent over-determined request is always justified for generic values
        h.require('refusal-justified', no_positive | not_enough, companion=False,
                  detail="the request has a unique mixture with all amounts positive, yet it was refused")
        return
    h.outcome = 'ok'
    if container_solvent:
        rest, sol = res
    else:
        rest, sol = None, res
    if not overdetermined:
        h.require('acceptance-justified', positive & enough, companion=False,
                  detail="no positive mixture satisfies the request, yet one was returned")
    # ---- the result itself
    expected_keys = set(solutes) | set(solv_comp)
    h.require('keys', h.true(set(sol.contents) == expected_keys),
              detail=f"contents {sorted(s.name for s in sol.contents)} vs solutes+solvent {sorted(s.name for s in expected_keys)}")
    for s, a in sol.contents.items():
        h.require('amount>0', h.gt(a, 0), detail=f"{s.name} must be present in a positive amount")
    # an over-determined request is met to a relative 2e-6 of each stated value (whatever its size)
    resid = Fr(2, 10**6) if overdetermined else 0
    # a container solvent is reduced to a pseudo substance whose molar mass uses the container's moles *rounded to
    # 10^-p mol* and its volume rounded to 10^-p mL: relative error ulp / (moles in mol) resp. ulp / mL (native / delta only)
    if container_solvent:
        mol_total = lib.total(solv_comp, 'mol')
        rel = h.rs(4 * h.ulp / mol_total + 4 * h.ulp / (lib.total(solv_comp, 'L') * 1000))
    else:
        rel = 0
    for (kind, i, unit) in row_labels:
        if kind == 'concentration':
            nb, db, scale = conc_def(h, unit)
            num = lib.amount(solutes[i], sol.contents.get(solutes[i], 0), nb)
            den = lib.total(sol.contents, db)
            cval = cvals[i]
            h.require('concentration-met', h.eq(num * scale, cval * den, h.rs(8 * h.ulp * scale * (1 + den)) + resid * cval * den + rel * cval * den),
                      region=unit, detail=f"{solutes_n[i]} at the stated concentration in {unit}")
        elif kind == 'quantity':
            pf, qb = split_unit(unit)
            got = lib.amount(solutes[i], sol.contents.get(solutes[i], 0), qb)
            h.require('quantity-met', h.eq(got, qvals[i] * PREFIX[pf], h.rs(4 * h.ulp * lib.amount(solutes[i], Fr(1), qb)) + resid * qvals[i] * PREFIX[pf] + rel * got),
                      region=unit, detail=f"{solutes_n[i]} in the stated quantity ({unit})")
        else:
            pf, tb = split_unit(unit)
            tot = lib.total(sol.contents, tb)
            h.require('total-met', h.eq(tot, T * PREFIX[pf], h.rs(8 * h.ulp * (1 + tot)) + resid * T * PREFIX[pf] + rel * tot), region=unit,
                      detail=f"total quantity in {unit}")
    if container_solvent:
        # solvent part is a uniform aliquot of the container; nothing is lost
        comps = [s_ for s_ in solv_comp if s_ not in solutes]
        for s_ in solutes:
            if s_ in solv_comp:
                h.require('solvent-conserved', h.ge(rest.contents.get(s_, 0) + sol.contents.get(s_, 0), solv_comp[s_], h.rs(4 * h.ulp)),
                          detail=f"{s_.name}: nothing of what the solvent container held is lost")
        for a_i in range(len(comps)):
            for b_i in range(a_i + 1, len(comps)):
                sa, sb = comps[a_i], comps[b_i]
                h.require('solvent-aliquot-uniform',
                          h.eq(sol.contents.get(sa, 0) * solv_comp[sb], sol.contents.get(sb, 0) * solv_comp[sa],
                               h.rs(2 * h.ulp * (solv_comp[sa] + solv_comp[sb]))))
        for s_ in comps:
            h.require('solvent-conserved', h.eq(rest.contents.get(s_, 0) + sol.contents.get(s_, 0), solv_comp[s_], h.rs(4 * h.ulp)),
                      detail=f"{s_.name}: depleted container + solution = original container")
        h.require('solvent-container-keys', h.true(set(rest.contents) == set(solv_comp)))
