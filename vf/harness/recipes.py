"""Shared machinery for the recipe properties (C08, C09, C15): a cast of declared objects, a template
alphabet of recipe steps, and an eager interpreter that applies the same operations through the public
Container/Plate operations to the current state (independent of Recipe.bake)."""
from __future__ import annotations

import itertools
from copy import deepcopy
from fractions import Fraction as Fr

from ..ref import Lib, PREFIX
from .common import mk_container, set_volume

S = slice
SUBS = ['water', 'NaCl', 'DMSO']

# template -> needs (names that must have been created by an earlier step), creates (name)
TEMPLATES = {
    'A>B': {}, 'A>Pr': {}, 'Pc>B': {}, 'P11>Pr2': {}, 'Pr1>Pr2': {}, 'A>Psub': {}, 'Psub>B': {},
    'rmB': {}, 'rmPr': {}, 'rmP': {},
    'fillB': {}, 'fillP': {}, 'fillS': {},
    'dilA': {}, 'dilAn': {},
    'mkC': {'creates': 'C'}, 'solW': {'creates': 'S'}, 'solA': {'creates': 'S'}, 'fromA': {'creates': 'F'},
    # diluted with a solvent the stock does not contain (kept out of the program enumeration: used by explicit cells only)
    'fromAd': {'creates': 'F', 'extra': True},
    # two solutes, listed in non-alphabetical order, each with its own concentration
    'sol2': {'creates': 'S', 'extra': True},
    'solC': {'needs': 'C', 'creates': 'S'}, 'A>C': {'needs': 'C'}, 'C>B': {'needs': 'C'},
    # a partial remove from a container the recipe itself created (the solvent goes, the solutes stay)
    'rmSw': {'needs': 'S', 'extra': True},
}
WELLS = [(0, 0), (0, 1), (1, 0), (1, 1)]


def programs(max_len, include_known=True):
    out = []
    names = [t for t in TEMPLATES if not TEMPLATES[t].get('extra')]
    for n in range(1, max_len + 1):
        for prog in itertools.product(names, repeat=n):
            created = set()
            ok = True
            for t in prog:
                spec = TEMPLATES[t]
                if 'needs' in spec and spec['needs'] not in created:
                    ok = False
                    break
                if 'creates' in spec:
                    if spec['creates'] in created:
                        ok = False
                        break
                    created.add(spec['creates'])
            if ok:
                out.append(prog)
    return out


class Cast:
    def __init__(self, h):
        self.h = h
        env = h.env
        self.lib = lib = Lib(h, SUBS)
        self.water, self.salt, self.dmso = lib['water'], lib['NaCl'], lib['DMSO']
        a_cap = h.p.get('a_cap') if isinstance(h.p, dict) else None
        # (a declared container may carry the name of a substance, as in the library's own examples: 'water', 'DMSO')
        a_name = (h.p.get('a_name') if isinstance(h.p, dict) else None) or 'A'
        A = env.Container(a_name, a_cap) if a_cap else env.Container(a_name)
        A.contents[self.water] = h.real('A.water', 10**4, 10**6)
        A.contents[self.salt] = h.real('A.NaCl', 10, 10**4)
        set_volume(h, lib, A)
        self.A = A
        self.B = env.Container('B', '5 mL')
        P = env.Plate('P', '500 uL', rows=2, columns=2)
        for (r, c) in WELLS:
            w = P.wells[r, c]
            w.contents[self.water] = h.real(f"P{r + 1}{c + 1}.water", 100, 10**4)
            set_volume(h, lib, w)
        self.P = P
        self.declared = {'A': A, 'B': self.B, 'P': P}

    def step_values(self, i, t):
        """symbolic parameters of step i (name -> value)"""
        h = self.h
        if t in ('fillB', 'fillP', 'fillS'):
            # at least 20 uL above what an untouched well holds: bake words its fill instruction by grouping wells
            # on "rounded amount added == 0", which would otherwise fork once per well
            return {'T': h.real(f"T{i}", 200, 5000)}
        if t in ('dilA', 'dilAn'):
            return {'c': h.real(f"c{i}", Fr(1, 1000), 5)}
        if t in ('solW', 'solA', 'solC', 'sol2'):
            return {'q': h.real(f"q{i}", 1, 3000)}
        if t in ('fromA', 'fromAd'):
            return {'q': h.real(f"q{i}", 1, 3000), 'c': h.real(f"c{i}", Fr(1, 1000), 5)}
        if t == 'mkC':
            return {'q': h.real(f"q{i}", 1, 3000)}
        if t.startswith('rm'):
            return {}
        return {'q': h.real(f"q{i}", Fr(1, 1000), 1000)}


USES = {
    'A>Psub': 'AP', 'Psub>B': 'PB', 'A>B': 'AB', 'A>Pr': 'AP', 'Pc>B': 'PB', 'P11>Pr2': 'P', 'Pr1>Pr2': 'P', 'rmB': 'B', 'rmPr': 'P', 'rmP': 'P',
    'fillB': 'B', 'fillP': 'P', 'fillS': 'P', 'dilA': 'A', 'dilAn': 'A', 'mkC': '', 'solW': '', 'solA': 'A', 'fromA': 'A', 'fromAd': 'A', 'sol2': '',
    'solC': '', 'A>C': 'A', 'C>B': 'B', 'rmSw': '',
}


def _objects(t):
    s = set(USES[t])
    for k in ('creates', 'needs'):
        if k in TEMPLATES[t]:
            s.add(TEMPLATES[t][k])
    return s


def interacting(prog):
    """True if some step of the program touches an object that an earlier step touched"""
    seen = set()
    for t in prog:
        o = _objects(t)
        if o & seen:
            return True
        seen |= o
    return False


def declared_for(prog):
    """the declared objects a program touches (bake refuses a recipe with an unused declared object: C16)"""
    used = set()
    for t in prog:
        used |= set(USES[t])
    return sorted(used)


def sub(P, which):
    """slices of slices (0-based relative indices): 'in' = well B1 via P[:, :][1:2, 0:1]; 'out' = well A2 via P[1:2, 1:2][0:1, 1:2]"""
    outer = P[:, :] if which == 'in' else P[1:2, 1:2]
    _ = (outer.size, outer.shape)          # a caller may well look at the parent slice before slicing it again
    return outer[1:2, 0:1] if which == 'in' else outer[0:1, 1:2]


def sel(P, which):
    return {'Pr': P[1, :], 'Pc': P[:, 1], 'P11': P[1, 1], 'Pr2': P[2, :], 'Pr1': P[1, :]}[which]


def add_step(cast: Cast, rec, t, v, placeholders):
    """add template t with values v to the recipe, using the declared objects / placeholders"""
    A, B, P = cast.A, cast.B, cast.P
    water, salt = cast.water, cast.salt
    if t == 'A>B':
        rec.transfer(A, B, f"{v['q']} uL")
    elif t == 'A>Pr':
        rec.transfer(A, P[1, :], f"{v['q']} uL")
    elif t == 'Pc>B':
        rec.transfer(P[:, 1], B, f"{v['q']} uL")
    elif t == 'A>Psub':
        rec.transfer(A, sub(P, 'in'), f"{v['q']} uL")
    elif t == 'Psub>B':
        rec.transfer(sub(P, 'out'), B, f"{v['q']} uL")
    elif t == 'P11>Pr2':
        rec.transfer(P[1, 1], P[2, :], f"{v['q']} uL")
    elif t == 'Pr1>Pr2':
        rec.transfer(P[1, :], P[2, :], f"{v['q']} uL")
    elif t == 'rmB':
        rec.remove(B, water)
    elif t == 'rmPr':
        rec.remove(P[1, :], water)
    elif t == 'rmP':
        rec.remove(P, water)
    elif t == 'rmSw':
        rec.remove(placeholders['S'], water)
    elif t == 'fillB':
        rec.fill_to(B, water, f"{v['T']} uL")
    elif t == 'fillP':
        rec.fill_to(P, water, f"{v['T']} uL")
    elif t == 'fillS':
        rec.fill_to(P[1, :], water, f"{v['T']} uL")
    elif t == 'dilA':
        rec.dilute(A, salt, f"{v['c']} M", water)
    elif t == 'dilAn':
        rec.dilute(A, salt, f"{v['c']} M", water, 'A-diluted')
    elif t == 'mkC':
        placeholders['C'] = rec.create_container('C', '10 mL', [(water, f"{v['q']} uL")])
    elif t == 'solW':
        placeholders['S'] = rec.create_solution(salt, water, name='S', concentration='0.1 M', total_quantity=f"{v['q']} uL")
    elif t == 'solA':
        placeholders['S'] = rec.create_solution(salt, A, name='S', concentration='0.1 M', total_quantity=f"{v['q']} uL")
    elif t == 'solC':
        placeholders['S'] = rec.create_solution(salt, placeholders['C'], name='S', concentration='0.1 M',
                                                total_quantity=f"{v['q']} uL")
    elif t == 'fromA':
        placeholders['F'] = rec.create_solution_from(A, salt, f"{v['c']} M", water, f"{v['q']} uL", name='F')
    elif t == 'sol2':
        placeholders['S'] = rec.create_solution([salt, cast.dmso], water, name='S', concentration=['0.1 M', '0.5 M'],
                                                total_quantity=f"{v['q']} uL")
    elif t == 'fromAd':
        placeholders['F'] = rec.create_solution_from(A, salt, f"{v['c']} M", cast.dmso, f"{v['q']} uL", name='F')
    elif t == 'A>C':
        rec.transfer(A, placeholders['C'], f"{v['q']} uL")
    elif t == 'C>B':
        rec.transfer(placeholders['C'], B, f"{v['q']} uL")
    else:
        raise KeyError(t)


def eager_step(cast: Cast, cur: dict, t, v):
    """apply template t to the current state `cur` (name -> object) through the direct public operations.
    Returns (touched names, discarded dict substance->amount, per-well discarded for plates)"""
    env = cast.h.env
    C, Plate = env.Container, env.Plate
    water, salt = cast.water, cast.salt
    discarded = {}
    if t == 'A>B':
        cur['A'], cur['B'] = C.transfer(cur['A'], cur['B'], f"{v['q']} uL")
        return ['A', 'B'], discarded
    if t == 'A>Pr':
        cur['A'], cur['P'] = Plate.transfer(cur['A'], cur['P'][1, :], f"{v['q']} uL")
        return ['A', 'P'], discarded
    if t == 'Pc>B':
        cur['P'], cur['B'] = C.transfer(cur['P'][:, 1], cur['B'], f"{v['q']} uL")
        return ['P', 'B'], discarded
    if t == 'A>Psub':
        cur['A'], cur['P'] = Plate.transfer(cur['A'], sub(cur['P'], 'in'), f"{v['q']} uL")
        return ['A', 'P'], discarded
    if t == 'Psub>B':
        cur['P'], cur['B'] = C.transfer(sub(cur['P'], 'out'), cur['B'], f"{v['q']} uL")
        return ['P', 'B'], discarded
    if t == 'P11>Pr2':
        p1, p2 = Plate.transfer(cur['P'][1, 1], cur['P'][2, :], f"{v['q']} uL")
        cur['P'] = p2
        return ['P'], discarded
    if t == 'Pr1>Pr2':
        p1, p2 = Plate.transfer(cur['P'][1, :], cur['P'][2, :], f"{v['q']} uL")
        cur['P'] = p2
        return ['P'], discarded
    if t in ('rmB', 'rmPr', 'rmP', 'rmSw'):
        name = {'rmB': 'B', 'rmSw': 'S'}.get(t, 'P')
        before = cur[name]
        target = before if t in ('rmB', 'rmP', 'rmSw') else before[1, :]
        after = target.remove(water)
        cur[name] = after
        # what was discarded = before - after, per substance
        for (b, a) in _pairs(before, after):
            for s, x in b.contents.items():
                if s not in a.contents:
                    discarded[s] = discarded.get(s, 0) + x
        return [name], discarded
    if t == 'fillB':
        cur['B'] = cur['B'].fill_to(water, f"{v['T']} uL")
        return ['B'], discarded
    if t == 'fillP':
        cur['P'] = cur['P'].fill_to(water, f"{v['T']} uL")
        return ['P'], discarded
    if t == 'fillS':
        cur['P'] = cur['P'][1, :].fill_to(water, f"{v['T']} uL")
        return ['P'], discarded
    if t == 'dilA':
        cur['A'] = cur['A'].dilute(salt, f"{v['c']} M", water)
        return ['A'], discarded
    if t == 'dilAn':
        cur['A'] = cur['A'].dilute(salt, f"{v['c']} M", water, 'A-diluted')
        return ['A'], discarded
    if t == 'mkC':
        cur['C'] = C('C', '10 mL', [(water, f"{v['q']} uL")])
        return ['C'], discarded
    if t == 'solW':
        cur['S'] = C.create_solution(salt, water, name='S', concentration='0.1 M', total_quantity=f"{v['q']} uL")
        return ['S'], discarded
    if t == 'solA':
        cur['A'], cur['S'] = C.create_solution(salt, cur['A'], name='S', concentration='0.1 M', total_quantity=f"{v['q']} uL")
        return ['A', 'S'], discarded
    if t == 'solC':
        cur['C'], cur['S'] = C.create_solution(salt, cur['C'], name='S', concentration='0.1 M', total_quantity=f"{v['q']} uL")
        return ['C', 'S'], discarded
    if t == 'fromA':
        cur['A'], cur['F'] = C.create_solution_from(cur['A'], salt, f"{v['c']} M", water, f"{v['q']} uL", name='F')
        return ['A', 'F'], discarded
    if t == 'sol2':
        cur['S'] = C.create_solution([salt, cast.dmso], water, name='S', concentration=['0.1 M', '0.5 M'],
                                     total_quantity=f"{v['q']} uL")
        return ['S'], discarded
    if t == 'fromAd':
        cur['A'], cur['F'] = C.create_solution_from(cur['A'], salt, f"{v['c']} M", cast.dmso, f"{v['q']} uL", name='F')
        return ['A', 'F'], discarded
    if t == 'A>C':
        cur['A'], cur['C'] = C.transfer(cur['A'], cur['C'], f"{v['q']} uL")
        return ['A', 'C'], discarded
    if t == 'C>B':
        cur['C'], cur['B'] = C.transfer(cur['C'], cur['B'], f"{v['q']} uL")
        return ['C', 'B'], discarded
    raise KeyError(t)


def _pairs(before, after):
    if hasattr(before, 'wells'):
        return list(zip(before.wells.flatten(), after.wells.flatten()))
    return [(before, after)]


def containers_of(obj):
    if hasattr(obj, 'wells'):
        return list(obj.wells.flatten())
    return [obj]


def creates_before_use(prog):
    """names created by the program (placeholder containers exist from declaration, filled at their step)"""
    return [TEMPLATES[t]['creates'] for t in prog if 'creates' in TEMPLATES[t]]
